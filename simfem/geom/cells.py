"""Independent geometry for the lineage oracle.

Nothing here calls scikit-fem.  Inputs are plain arrays ``p`` (dim, nv) and
``t`` (nnodes, nt) plus a cell-kind string.  Local numberings follow the
conventions documented for the public mesh constructors (the same ones the
generator uses):

    line  0-1
    tri   0,1,2
    quad  0,1,2,3 counter-clockwise or clockwise
    tet   0,1,2,3
    hex   0:(0,0,0) 1:(0,0,1) 2:(0,1,0) 3:(1,0,0) 4:(0,1,1) 5:(1,0,1)
          6:(1,1,0) 7:(1,1,1)           (reference coordinates of the corners)
    wedge 0,1,2 bottom triangle, 3,4,5 top triangle (3 above 0, ...)
"""
import itertools

import numpy as np

DIM = {"line": 1, "tri": 2, "quad": 2, "tet": 3, "hex": 3, "wedge": 3}
NV = {"line": 2, "tri": 3, "quad": 4, "tet": 4, "hex": 8, "wedge": 6}
SIMPLEX = {"line", "tri", "tet"}

# facets as tuples of local vertex numbers, in cyclic order where it matters
FACETS = {
    "line": [(0,), (1,)],
    "tri": [(0, 1), (1, 2), (0, 2)],
    "quad": [(0, 1), (1, 2), (2, 3), (0, 3)],
    "tet": [(0, 1, 2), (0, 1, 3), (0, 2, 3), (1, 2, 3)],
    "hex": [(0, 1, 4, 2), (3, 5, 7, 6), (0, 1, 5, 3), (2, 4, 7, 6),
            (0, 2, 6, 3), (1, 4, 7, 5)],
    "wedge": [(0, 1, 2), (3, 4, 5), (0, 1, 4, 3), (1, 2, 5, 4), (0, 2, 5, 3)],
}

def _hex_edges():
    ref = [(0, 0, 0), (0, 0, 1), (0, 1, 0), (1, 0, 0),
           (0, 1, 1), (1, 0, 1), (1, 1, 0), (1, 1, 1)]
    return [(a, b) for a in range(8) for b in range(a + 1, 8)
            if sum(x != y for x, y in zip(ref[a], ref[b])) == 1]


EDGES = {
    "line": [],
    "tri": [(0, 1), (1, 2), (0, 2)],
    "quad": [(0, 1), (1, 2), (2, 3), (0, 3)],
    "tet": [(0, 1), (1, 2), (0, 2), (0, 3), (1, 3), (2, 3)],
    "hex": _hex_edges(),
    "wedge": [(0, 1), (1, 2), (0, 2), (3, 4), (4, 5), (3, 5), (0, 3), (1, 4),
              (2, 5)],
}


def count_edges(t, kind):
    tt = np.asarray(t)[:NV[kind]]
    keys = set()
    for a, b in EDGES[kind]:
        e = np.sort(tt[[a, b]], axis=0).T
        keys.update(map(tuple, e.tolist()))
    return len(keys)


HEX_REF = np.array([[0, 0, 0], [0, 0, 1], [0, 1, 0], [1, 0, 0],
                    [0, 1, 1], [1, 0, 1], [1, 1, 0], [1, 1, 1]], dtype=float)
QUAD_REF = np.array([[0, 0], [1, 0], [1, 1], [0, 1]], dtype=float)
WEDGE_REF = np.array([[0, 0, 0], [1, 0, 0], [0, 1, 0],
                      [0, 0, 1], [1, 0, 1], [0, 1, 1]], dtype=float)


def kind_of(mesh):
    """Cell kind from the class name of a scikit-fem mesh object."""
    n = type(mesh).__name__
    for key, kind in (("Line", "line"), ("Tri", "tri"), ("Quad", "quad"),
                      ("Tet", "tet"), ("Hex", "hex"), ("Wedge", "wedge")):
        if key in n:
            return kind
    raise ValueError(n)


# ----------------------------------------------------------------- shape fns
def shape(kind, X):
    """Shape functions N (nv, n) and derivatives dN (nv, dim, n) of the
    (multi)linear cell at reference points X (dim, n).  Own formulas."""
    X = np.asarray(X, dtype=float)
    n = X.shape[1]
    if kind == "line":
        N = np.array([1 - X[0], X[0]])
        dN = np.array([[-np.ones(n)], [np.ones(n)]])
    elif kind == "tri":
        N = np.array([1 - X[0] - X[1], X[0], X[1]])
        dN = np.array([[-np.ones(n), -np.ones(n)],
                       [np.ones(n), np.zeros(n)],
                       [np.zeros(n), np.ones(n)]])
    elif kind == "tet":
        N = np.array([1 - X[0] - X[1] - X[2], X[0], X[1], X[2]])
        o, z = np.ones(n), np.zeros(n)
        dN = np.array([[-o, -o, -o], [o, z, z], [z, o, z], [z, z, o]])
    elif kind in ("quad", "hex"):
        ref = QUAD_REF if kind == "quad" else HEX_REF
        d = ref.shape[1]
        N = np.ones((len(ref), n))
        dN = np.ones((len(ref), d, n))
        for v, c in enumerate(ref):
            for a in range(d):
                f = X[a] if c[a] == 1 else 1 - X[a]
                df = np.ones(n) if c[a] == 1 else -np.ones(n)
                N[v] *= f
                for b in range(d):
                    dN[v, b] *= df if a == b else f
    elif kind == "wedge":
        lam = np.array([1 - X[0] - X[1], X[0], X[1]])
        o, z = np.ones(n), np.zeros(n)
        dlam = np.array([[-o, -o], [o, z], [z, o]])
        N = np.vstack((lam * (1 - X[2]), lam * X[2]))
        dN = np.zeros((6, 3, n))
        for v in range(3):
            dN[v, 0] = dlam[v, 0] * (1 - X[2])
            dN[v, 1] = dlam[v, 1] * (1 - X[2])
            dN[v, 2] = -lam[v]
            dN[v + 3, 0] = dlam[v, 0] * X[2]
            dN[v + 3, 1] = dlam[v, 1] * X[2]
            dN[v + 3, 2] = lam[v]
    else:
        raise ValueError(kind)
    return N, dN


def gauss(kind):
    """Quadrature (X, W) on the reference cell, exact for the polynomial
    Jacobian determinant of the (multi)linear map."""
    g = np.array([0.5 - 0.5 / np.sqrt(3), 0.5 + 0.5 / np.sqrt(3)])
    if kind == "line":
        return np.array([[0.5]]), np.array([1.0])
    if kind == "tri":
        return np.array([[1 / 3], [1 / 3]]), np.array([0.5])
    if kind == "tet":
        return np.array([[0.25], [0.25], [0.25]]), np.array([1 / 6])
    if kind == "quad":
        X = np.array(list(itertools.product(g, g))).T
        return X, np.full(4, 0.25)
    if kind == "hex":
        X = np.array(list(itertools.product(g, g, g))).T
        return X, np.full(8, 0.125)
    if kind == "wedge":
        tri = np.array([[1 / 6, 1 / 6], [2 / 3, 1 / 6], [1 / 6, 2 / 3]])
        X = np.array([[a, b, c] for a, b in tri for c in g]).T
        return X, np.full(6, 1 / 6 * 0.5)
    raise ValueError(kind)


def jac_det(kind, V, X):
    """det of the Jacobian of cells with vertices V (nv, dim, nc) at X
    (dim, n) -> (nc, n)."""
    _, dN = shape(kind, X)
    J = np.einsum("vdc,ven->dec n".replace(" ", ""), V, dN)  # (dim, dim, nc, n)
    d = J.shape[0]
    if d == 1:
        return J[0, 0]
    if d == 2:
        return J[0, 0] * J[1, 1] - J[0, 1] * J[1, 0]
    return (J[0, 0] * (J[1, 1] * J[2, 2] - J[1, 2] * J[2, 1])
            - J[0, 1] * (J[1, 0] * J[2, 2] - J[1, 2] * J[2, 0])
            + J[0, 2] * (J[1, 0] * J[2, 1] - J[1, 1] * J[2, 0]))


def verts(p, t, kind):
    """(nv, dim, nc) vertex coordinates of every cell (first nv rows of t)."""
    tt = np.asarray(t)[:NV[kind]]
    return np.transpose(np.asarray(p)[:, tt], (1, 0, 2))


def measures(p, t, kind):
    """Signed-free measure per cell and a fold indicator for multilinear
    cells (True when det J changes sign over corners + Gauss points)."""
    V = verts(p, t, kind)
    X, W = gauss(kind)
    det = jac_det(kind, V, X)
    meas = np.abs((det * W[None, :]).sum(axis=1))
    folded = np.zeros(V.shape[2], dtype=bool)
    if kind in ("quad", "hex", "wedge"):
        ref = {"quad": QUAD_REF, "hex": HEX_REF, "wedge": WEDGE_REF}[kind].T
        dc = jac_det(kind, V, np.hstack((ref, X)))
        folded = ~((dc > 0).all(axis=1) | (dc < 0).all(axis=1))
    return meas, folded


def orientation_sign(p, t, kind):
    V = verts(p, t, kind)
    X, _ = gauss(kind)
    return np.sign(jac_det(kind, V, X[:, :1])[:, 0])


def diameters(p, t, kind):
    V = verts(p, t, kind)
    return np.sqrt(((V.max(axis=0) - V.min(axis=0)) ** 2).sum(axis=0))


# ----------------------------------------------------------------- facets
def facet_table(t, kind):
    """dict: sorted global vertex tuple -> list of (cell, local slot)."""
    tt = np.asarray(t)[:NV[kind]]
    tab = {}
    for slot, loc in enumerate(FACETS[kind]):
        keys = np.sort(tt[list(loc)], axis=0).T
        for c, key in enumerate(map(tuple, keys.tolist())):
            tab.setdefault(key, []).append((c, slot))
    return tab


def facet_vertices_ordered(t, kind, cell, slot):
    """Global vertex ids of a facet in cyclic order (for measures)."""
    return [int(np.asarray(t)[v, cell]) for v in FACETS[kind][slot]]


def poly_measure(P):
    """Measure of a facet given its ordered vertices P (k, dim):
    point -> 1, segment -> length, triangle / quadrilateral -> area
    (quadrilateral as bilinear patch, 4x4 Gauss)."""
    P = np.asarray(P, dtype=float)
    k = len(P)
    if k == 1:
        return 1.0
    if k == 2:
        return float(np.linalg.norm(P[1] - P[0]))
    if k == 3:
        a, b = P[1] - P[0], P[2] - P[0]
        if P.shape[1] == 2:
            return 0.5 * abs(a[0] * b[1] - a[1] * b[0])
        return 0.5 * float(np.linalg.norm(np.cross(a, b)))
    if k == 4:
        x, w = np.polynomial.legendre.leggauss(4)
        x, w = 0.5 * (x + 1), 0.5 * w
        tot = 0.0
        for u, wu in zip(x, w):
            for v, wv in zip(x, w):
                du = (1 - v) * (P[1] - P[0]) + v * (P[2] - P[3])
                dv = (1 - u) * (P[3] - P[0]) + u * (P[2] - P[1])
                if P.shape[1] == 2:
                    tot += wu * wv * abs(du[0] * dv[1] - du[1] * dv[0])
                else:
                    tot += wu * wv * np.linalg.norm(np.cross(du, dv))
        return float(tot)
    raise ValueError(k)


def facet_triangles(P):
    """Split an ordered facet polygon into simplices (for distance tests)."""
    k = len(P)
    if k <= 3:
        return [P]
    return [P[[0, 1, 2]], P[[0, 2, 3]]]


def dist_point_simplex(x, S):
    """Euclidean distance from x to the simplex with vertices S (k, dim),
    k = 1, 2, 3."""
    S = np.asarray(S, dtype=float)
    x = np.asarray(x, dtype=float)
    k = len(S)
    if k == 1:
        return float(np.linalg.norm(x - S[0]))
    if k == 2:
        a = S[1] - S[0]
        tpar = np.clip(np.dot(x - S[0], a) / max(np.dot(a, a), 1e-300), 0, 1)
        return float(np.linalg.norm(x - (S[0] + tpar * a)))
    # triangle in 2-D or 3-D
    a, b = S[1] - S[0], S[2] - S[0]
    G = np.array([[a @ a, a @ b], [a @ b, b @ b]])
    rhs = np.array([(x - S[0]) @ a, (x - S[0]) @ b])
    try:
        uv = np.linalg.solve(G, rhs)
    except np.linalg.LinAlgError:
        uv = np.array([-1.0, -1.0])
    if uv[0] >= 0 and uv[1] >= 0 and uv.sum() <= 1:
        return float(np.linalg.norm(x - (S[0] + uv[0] * a + uv[1] * b)))
    return min(dist_point_simplex(x, S[[0, 1]]),
               dist_point_simplex(x, S[[1, 2]]),
               dist_point_simplex(x, S[[0, 2]]))


def dist_point_facet(x, P):
    """Distance from x to a facet given by its ordered vertices.  A planar
    quadrilateral is two triangles; a non-planar one is treated as the
    bilinear patch it is (own Gauss-Newton for the closest point)."""
    P = np.asarray(P, dtype=float)
    x = np.asarray(x, dtype=float)
    if len(P) < 4:
        return dist_point_simplex(x, P)
    dtri = min(dist_point_simplex(x, T) for T in facet_triangles(P))
    if P.shape[1] == 2:
        return dtri
    n = np.cross(P[1] - P[0], P[3] - P[0])
    nn = np.linalg.norm(n)
    size = max(np.linalg.norm(P[2] - P[0]), 1e-300)
    if nn == 0 or abs(np.dot(P[2] - P[0], n / nn)) <= 1e-13 * size:
        return dtri
    u = v = 0.5
    best = dtri
    for _ in range(25):
        S = ((1 - u) * (1 - v) * P[0] + u * (1 - v) * P[1] + u * v * P[2]
             + (1 - u) * v * P[3])
        Su = (1 - v) * (P[1] - P[0]) + v * (P[2] - P[3])
        Sv = (1 - u) * (P[3] - P[0]) + u * (P[2] - P[1])
        r = x - S
        best = min(best, float(np.linalg.norm(r)))
        J = np.array([Su, Sv]).T
        try:
            d = np.linalg.lstsq(J, r, rcond=None)[0]
        except np.linalg.LinAlgError:
            break
        u = float(np.clip(u + d[0], 0.0, 1.0))
        v = float(np.clip(v + d[1], 0.0, 1.0))
        if np.abs(d).max() < 1e-14:
            break
    S = ((1 - u) * (1 - v) * P[0] + u * (1 - v) * P[1] + u * v * P[2]
         + (1 - u) * v * P[3])
    return min(best, float(np.linalg.norm(x - S)))


# ----------------------------------------------------------------- location
def ref_coords(kind, V, x, iters=30):
    """Reference coordinates of points x (dim, n) in cells with vertices V
    (nv, dim, n) (one cell per point).  Simplices: linear solve; multilinear
    cells: own Newton iteration.  Returns (X, converged)."""
    d = DIM[kind]
    n = x.shape[1]
    if kind in SIMPLEX:
        A = np.transpose(V[1:] - V[:1], (2, 1, 0))       # (n, dim, dim)
        b = (x - V[0]).T[:, :, None]
        try:
            X = np.linalg.solve(A, b)[:, :, 0].T
            return X, np.ones(n, dtype=bool)
        except np.linalg.LinAlgError:
            X = np.full((d, n), np.nan)
            ok = np.zeros(n, dtype=bool)
            for i in range(n):
                try:
                    X[:, i] = np.linalg.solve(A[i], b[i, :, 0])
                    ok[i] = True
                except np.linalg.LinAlgError:
                    pass
            return X, ok
    X = np.full((d, n), 0.5)
    if kind == "wedge":
        X[:2] = 1 / 3
    ok = np.zeros(n, dtype=bool)
    for _ in range(iters):
        N, dN = shape(kind, X)
        F = np.einsum("vdn,vn->dn", V, N)
        J = np.einsum("vdn,ven->nde", V, dN)
        r = (x - F).T[:, :, None]
        try:
            dX = np.linalg.solve(J, r)[:, :, 0].T
        except np.linalg.LinAlgError:
            return X, ok
        X = X + dX
        X = np.clip(X, -2.0, 3.0)
        if np.abs(dX).max() < 1e-13:
            ok[:] = True
            break
    else:
        N, _ = shape(kind, X)
        F = np.einsum("vdn,vn->dn", V, N)
        # residual relative to the cell size for very small / very large
        # cells, the historical absolute 1e-9 in between
        hs = (V.max(axis=0) - V.min(axis=0)).max(axis=0)
        tolF = 1e-9 * np.where((hs < 1e-2) | (hs > 1.0), hs, 1.0)
        ok = np.abs(x - F).max(axis=0) < tolF
    return X, ok


def inside_margin(kind, X):
    """Signed margin of reference points: >0 strictly inside, ~0 on the
    boundary, <0 outside (in reference units)."""
    if kind in SIMPLEX:
        return np.minimum(X.min(axis=0), 1 - X.sum(axis=0))
    if kind in ("quad", "hex"):
        return np.minimum(X.min(axis=0), (1 - X).min(axis=0))
    if kind == "wedge":
        tri = np.minimum(X[:2].min(axis=0), 1 - X[:2].sum(axis=0))
        return np.minimum(tri, np.minimum(X[2], 1 - X[2]))
    raise ValueError(kind)


def locate(points, p, t, kind, tol=1e-9):
    """For each point: list of (cell, margin) for every cell whose closed
    tol-neighbourhood contains it.  Bounding-box prefilter, then exact test."""
    points = np.asarray(points, dtype=float)
    n = points.shape[1]
    out = [[] for _ in range(n)]
    if n == 0 or np.asarray(t).shape[1] == 0:
        return out
    V = verts(p, t, kind)                          # (nv, dim, nc)
    lo = V.min(axis=0)
    hi = V.max(axis=0)
    h = (hi - lo).max(axis=0)
    pad = 1e-7 * np.maximum(h, 1e-300) + 1e-12
    # multilinear faces may bulge slightly outside the vertex bounding box
    if kind in ("hex",):
        pad = pad + 0.05 * h
    cand = np.ones((n, V.shape[2]), dtype=bool)
    for d in range(points.shape[0]):
        cand &= points[d][:, None] >= (lo[d] - pad)[None, :]
        cand &= points[d][:, None] <= (hi[d] + pad)[None, :]
    pi, ci = np.nonzero(cand)
    if len(pi) == 0:
        return out
    X, ok = ref_coords(kind, V[:, :, ci], points[:, pi])
    marg = inside_margin(kind, X)
    for a, c, mg, good in zip(pi.tolist(), ci.tolist(), marg.tolist(),
                              ok.tolist()):
        if good and mg >= -tol:
            out[a].append((c, mg))
    return out


def contains_all(kind, V1, pts, tol=1e-9):
    """Are all points pts (dim, k) inside the single cell with vertices V1
    (nv, dim)?  Returns the minimum margin."""
    k = pts.shape[1]
    V = np.repeat(V1[:, :, None], k, axis=2)
    X, ok = ref_coords(kind, V, pts)
    if not ok.all():
        return -np.inf
    return float(inside_margin(kind, X).min())


def centroids(p, t, kind):
    return verts(p, t, kind).mean(axis=0)


def duplicate_vertices(p, tol):
    """Pairs of distinct vertices closer than tol."""
    from scipy.spatial import cKDTree
    tree = cKDTree(np.asarray(p).T)
    return sorted(tree.query_pairs(tol))
