"""Scale probes of the lineage engine.

The ordinary histories stay below ~1200 cells so that the full geometric
oracle (point location, parent maps, facet tables) can run after every step.
Index arithmetic that is only wrong for LARGE meshes (a 32-bit product
``a * nv + b`` wraps once a mesh has more than 46340 vertices) is out of
their reach.  A scale probe is one short history on a mesh with more than
2**15.5 vertices, judged by *light*, fully vectorised checks: counts,
measures, vertex preservation, facet multiplicities, boundary measure, and
tags compared through the coordinates of the (few hundred) tagged entities.

One probe per quick batch and property, more in the thorough tier.
"""
import logging
import random

import numpy as np

from ..core import digest
from ..geom import cells as G
from .checks import Bad

MTOL = 1e-7
BIG = {
    "C12": ["line", "tri", "quad", "hex", "tet"],
    "C13": ["line", "tri", "tet", "tet"],
    "C18": ["quad", "quad", "tri", "tet", "hex"],
}


def build_big(kind):
    """A library-constructed mesh with more than 46340 vertices."""
    from skfem import mesh as skm
    if kind == "line":
        return skm.MeshLine(np.linspace(0.0, 1.0, 50001) ** 1.1)
    if kind == "tri":
        x = np.linspace(0, 1, 217)
        return skm.MeshTri.init_tensor(x, x ** 1.2)
    if kind == "quad":
        x = np.linspace(0, 1, 218)
        return skm.MeshQuad.init_tensor(x ** 1.1, x)
    if kind == "tet":
        x = np.linspace(0, 1, 10)
        return skm.MeshTet.init_tensor(x, x, x).refined(2)
    if kind == "hex":
        x = np.linspace(0, 1, 38)
        return skm.MeshHex.init_tensor(x, x, x ** 1.1)
    raise ValueError(kind)


# the probes of one batch cycle through these (kind, operation) strata, so
# that every batch - also a quick one with its 8 probes - covers all of them
STRATA = {
    "C12": [("line", None), ("tri", None), ("quad", None), ("hex", None),
            ("tet", None), ("tri", None), ("quad", None), ("line", None)],
    "C13": [("tet", 8), ("tri", 8), ("line", 8), ("tet", 40), ("tri", 40),
            ("tet", 3), ("line", 40), ("tri", 3)],
    "C18": [("quad", "split"), ("quad", "split-x"), ("quad", "restrict"),
            ("tri", "restrict"), ("tet", "remove"), ("hex", "split"),
            ("quad", "remove"), ("tri", "transform")],
}


def generate(prop, rng, j=0):
    kind, what = STRATA[prop][j % len(STRATA[prop])]
    sd = lambda: rng.randrange(1 << 30)
    ops = [{"op": "tag_s", "frac": 0.03, "seed": sd()}]
    if kind in ("line", "tri", "quad"):
        ops.append({"op": "tag_b", "n": 200, "seed": sd()})
    if prop == "C12":
        ops.append({"op": "refine_uniform"})
    elif prop == "C13":
        for _ in range(rng.choice([1, 2])):
            ops.append({"op": "refine_adaptive", "n": what, "seed": sd()})
    else:
        if kind not in ("line", "tri", "quad"):
            ops.append({"op": "tag_b", "n": 150, "seed": sd()})
        ops.append({"op": what, "seed": sd(),
                    "order": rng.choice(["sorted", "reversed"])})
    return {"prop": prop, "scale": True, "kind": kind, "ops": ops}


# ----------------------------------------------------------------- light geometry
def _rows_unique_counts(rows):
    rows = np.ascontiguousarray(rows)
    v = rows.view([("", rows.dtype)] * rows.shape[1]).ravel()
    u, inv, cnt = np.unique(v, return_inverse=True, return_counts=True)
    return u.view(rows.dtype).reshape(-1, rows.shape[1]), inv, cnt


def facet_rows(t, kind):
    tt = np.asarray(t)[:G.NV[kind]]
    rows = [np.sort(tt[list(loc)], axis=0).T for loc in G.FACETS[kind]]
    return np.vstack(rows).astype(np.int64)


def facet_measure_rows(p, rows_sorted, t, kind):
    """Measure of facets given by vertex rows (any order for simplices)."""
    P = p[:, rows_sorted]                 # (dim, nf, k)
    k = rows_sorted.shape[1]
    if k == 1:
        return np.ones(rows_sorted.shape[0])
    if k == 2:
        return np.linalg.norm(P[:, :, 1] - P[:, :, 0], axis=0)
    if k == 3:
        a = (P[:, :, 1] - P[:, :, 0]).T
        b = (P[:, :, 2] - P[:, :, 0]).T
        return 0.5 * np.linalg.norm(np.cross(a, b), axis=1)
    # quadrilateral faces of (planar, tensor) hexahedra: the sorted vertex
    # order is not cyclic; area of the convex hull of 4 coplanar points =
    # half the sum of the three triangle areas that contain vertex 0 ... use
    # the largest-two-triangles identity: area = (A012 + A013 + A023 + A123)/2
    def tri(i, j, l):
        a = (P[:, :, j] - P[:, :, i]).T
        b = (P[:, :, l] - P[:, :, i]).T
        return 0.5 * np.linalg.norm(np.cross(a, b), axis=1)
    return 0.5 * (tri(0, 1, 2) + tri(0, 1, 3) + tri(0, 2, 3) + tri(1, 2, 3))


class Light:
    """Light snapshot of a mesh."""

    def __init__(self, m, with_facets=True):
        self.kind = G.kind_of(m)
        self.cls = type(m).__name__
        self.p = np.asarray(m.p)
        self.t = np.asarray(m.t).astype(np.int64)
        self.nt = self.t.shape[1]
        self.nv = self.p.shape[1]
        self.meas, self.folded = G.measures(self.p, self.t, self.kind)
        self.total = float(self.meas.sum())
        self.sub = None if m.subdomains is None else {
            k: np.asarray(v, dtype=np.int64) for k, v in m.subdomains.items()}
        self.bnd = None
        if m.boundaries is not None:
            fac = np.asarray(m.facets)
            self.bnd = {}
            for k, v in m.boundaries.items():
                idx = np.asarray(v, dtype=np.int64)
                if len(idx) and (idx.min() < 0 or idx.max() >= fac.shape[1]):
                    raise Bad("tags-boundary-index-out-of-range", name=str(k))
                self.bnd[k] = fac[:, idx].T.astype(np.int64)   # (n, k) vertex rows
        self.bmeas = None
        self.maxmult = None
        if with_facets and self.nt <= 450000:
            rows = facet_rows(self.t, self.kind)
            u, inv, cnt = _rows_unique_counts(rows)
            self.maxmult = int(cnt.max())
            self.bmeas = float(facet_measure_rows(self.p, u[cnt == 1], self.t,
                                                  self.kind).sum())

    def valid(self):
        if self.t.min() < 0 or self.t.max() >= self.nv:
            raise Bad("valid-index-range", tmax=int(self.t.max()), npoints=self.nv)
        if not np.isfinite(self.p).all():
            raise Bad("valid-nonfinite-coordinates")
        used = np.zeros(self.nv, dtype=bool)
        used[self.t.ravel()] = True
        if not used.all():
            raise Bad("valid-unused-vertex", unused=int((~used).sum()))
        h = G.diameters(self.p, self.t, self.kind)
        d = G.DIM[self.kind]
        if (self.meas < 1e-12 * np.maximum(h, 1e-300) ** d).any():
            raise Bad("valid-degenerate-cell",
                      cells=np.nonzero(self.meas < 1e-12 * h ** d)[0][:5].tolist())
        if self.folded.any():
            raise Bad("valid-inverted-cell")
        pr = np.ascontiguousarray(np.round(self.p.T, 12))
        if len(np.unique(pr.view([("", pr.dtype)] * pr.shape[1]))) != self.nv:
            raise Bad("valid-duplicate-vertices")
        if self.maxmult is not None and self.maxmult > 2:
            raise Bad("conforming-facet-with->2-cells")

    def sub_measure(self, name):
        idx = self.sub[name]
        if len(idx) and (idx.min() < 0 or idx.max() >= self.nt):
            raise Bad("tags-subdomain-index-out-of-range", name=str(name))
        if len(np.unique(idx)) != len(idx):
            raise Bad("tags-subdomain-lists-cell-twice", name=str(name))
        return float(self.meas[idx].sum())

    def bnd_keys(self, name):
        rows = self.bnd[name]
        return sorted(tuple(sorted(map(tuple, self.p[:, r].T.tolist())))
                      for r in rows)

    def bnd_measure(self, name):
        rows = self.bnd[name]
        if len(rows) == 0:
            return 0.0
        return float(facet_measure_rows(self.p, rows, self.t, self.kind).sum())


def _close(a, b, scale):
    return abs(a - b) <= MTOL * max(scale, 1e-300)


# ----------------------------------------------------------------- execution
def execute(trace):
    prop = trace["prop"]
    stats = {"steps": 0, "faults": {}, "probes": {"scale-probe": 1},
             "swarm": {"family": "scale-" + trace["kind"], "order": 1,
                       "nops": len(trace["ops"])}}
    probes = stats["probes"]
    log = []
    violation = None
    lg = logging.getLogger("skfem")
    lg.setLevel(logging.ERROR)
    import warnings
    with warnings.catch_warnings():
        warnings.simplefilter("ignore")
        m = build_big(trace["kind"])
        try:
            s = Light(m)
            s.valid()
        except Bad as b:
            return {"harness_error": "scale probe: initial mesh invalid: %s"
                    % b.cls}
        for k, o in enumerate(trace["ops"]):
            cls = s.cls
            try:
                m, s, tag = _step(m, s, o, prop, probes)
            except Bad as b:
                violation = {"class": b.cls, "at": k,
                             "signature": "%s/%s/%s@scale" % (b.cls, o["op"], cls),
                             "detail": dict(b.detail, op=o, mesh=cls,
                                            cells=int(s.nt),
                                            vertices=int(s.nv))}
                break
            stats["steps"] += 1
            log.append((k, o["op"], tag, s.nt, s.nv, round(s.total, 9)))
    hist = digest.jdigest([trace["kind"], trace["ops"]])
    return {"trace": trace, "violation": violation, "stats": stats,
            "log_digest": digest.jdigest(log),
            "keys": {"histories": [hist], "nontrivial": [hist],
                     "scale_probes": [hist]}}


def _call(fn, what, cls):
    try:
        return fn()
    except Exception as e:
        raise Bad("op-raised", call=what, mesh=cls,
                  exception="%s: %s" % (type(e).__name__, str(e)[:200]))


def _step(m, s, o, prop, probes):
    r = random.Random(o.get("seed", 0))
    name = o["op"]
    if name == "tag_s":
        k = max(1, int(o["frac"] * s.nt))
        idx = np.array(sorted(r.sample(range(s.nt), k)), dtype=np.int32)
        m2 = m.with_subdomains({"s": idx})
        return m2, _retag(s, m2), "tag_s"
    if name == "tag_b":
        nf = m.facets.shape[1]
        idx = np.array(sorted(r.sample(range(nf), min(nf, o["n"]))),
                       dtype=np.int32)
        m2 = m.with_boundaries({"b": idx})
        return m2, _retag(s, m2), "tag_b"
    if name == "refine_uniform":
        rr = _call(lambda: m.refined(1), "refined(1)", s.cls)
        ns = Light(rr, with_facets=s.kind != "tet")
        _check_refine(s, ns, prop, uniform=True)
        return rr, ns, "uniform"
    if name == "refine_adaptive":
        # marked cells spread over the whole index range, high indices included
        n = o["n"]
        picks = sorted(set([s.nt - 1, s.nt - 2, s.nt // 2, 0]
                           + r.sample(range(s.nt), min(n, s.nt))))
        marked = np.array(picks, dtype=np.int32)
        rr = _call(lambda: m.refined(marked), "refined(marked)", s.cls)
        ns = Light(rr)
        _check_refine(s, ns, prop, uniform=False, marked=picks)
        return rr, ns, "adaptive"
    if name in ("restrict", "remove"):
        keep = np.array(sorted(r.sample(range(s.nt), s.nt // 2)), dtype=np.int32)
        arg = keep[::-1].copy() if o.get("order") == "reversed" else keep
        if name == "remove":
            rem = np.setdiff1d(np.arange(s.nt, dtype=np.int32), keep)
            rr = _call(lambda: m.remove_elements(rem), "remove_elements", s.cls)
        else:
            rr = _call(lambda: m.restrict(arg), "restrict", s.cls)
        ns = Light(rr)
        _check_restrict(s, ns, keep)
        return rr, ns, name
    if name in ("split", "split-x"):
        if s.kind == "quad":
            style = "x" if name == "split-x" else None
            rr = _call(lambda: m.to_meshtri(style=style), "to_meshtri", s.cls)
            per = 4 if style == "x" else 2
        else:
            rr = _call(lambda: m.to_meshtet(), "to_meshtet", s.cls)
            per = 6
        ns = Light(rr)
        ns.valid()
        if ns.nt != per * s.nt:
            raise Bad("surgery-split-cell-count", expected=per * s.nt, got=ns.nt)
        if not _close(ns.total, s.total, s.total):
            raise Bad("domain-total-measure-differs", model=s.total, mesh=ns.total)
        if ns.bmeas is not None and not _close(ns.bmeas, s.bmeas, s.bmeas):
            raise Bad("domain-boundary-measure-differs", old=s.bmeas, new=ns.bmeas)
        _carried_tags_equal(s, ns, "split")
        return rr, ns, name
    if name == "transform":
        v = np.array([1.5, 0.75, 2.0][:s.p.shape[0]])
        rr = _call(lambda: m.scaled(tuple(v.tolist())), "scaled", s.cls)
        ns = Light(rr, with_facets=False)
        if ns.t.shape != s.t.shape or not (ns.t == s.t).all() or \
                np.abs(ns.p - s.p * v[:, None]).max() > 1e-12 * 2:
            raise Bad("surgery-transform-coordinates-differ")
        ns.bmeas, ns.maxmult = None, None
        return rr, ns, name
    raise ValueError(name)


def _retag(s, m2):
    ns = Light(m2, with_facets=False)
    ns.bmeas, ns.maxmult = s.bmeas, s.maxmult
    if ns.p.shape != s.p.shape or not (ns.p == s.p).all() or \
            not (ns.t == s.t).all():
        raise Bad("surgery-tagging-changed-geometry")
    return ns


def _check_refine(s, ns, prop, uniform, marked=None):
    d = G.DIM[s.kind]
    ns.valid()
    if uniform and ns.nt != s.nt * 2 ** d:
        raise Bad("uniform-cell-count", expected=s.nt * 2 ** d, got=ns.nt)
    if ns.nv < s.nv or np.abs(ns.p[:, :s.nv] - s.p).max() > 1e-12:
        raise Bad("vertices-old-vertex-moved-or-renumbered")
    if not _close(ns.total, s.total, s.total):
        raise Bad("domain-total-measure-differs", model=s.total, mesh=ns.total)
    if ns.bmeas is not None and s.bmeas is not None and \
            not _close(ns.bmeas, s.bmeas, s.bmeas):
        raise Bad("conforming-hanging-node-or-hole", old_boundary=s.bmeas,
                  new_boundary=ns.bmeas)
    if marked is not None:
        newcells = set(map(tuple, np.sort(ns.t, axis=0).T.tolist()))
        for c in marked:
            if tuple(sorted(s.t[:, c].tolist())) in newcells:
                raise Bad("adaptive-marked-cell-not-subdivided", cell=int(c))
    if s.sub is not None:
        for name in s.sub:
            if ns.sub is None or name not in ns.sub:
                raise Bad("tags-subdomain-dropped", name=str(name), mesh=s.cls)
            a, b = s.sub_measure(name), ns.sub_measure(name)
            if not _close(a, b, s.total):
                raise Bad("tags-subdomain-measure-differs", name=str(name),
                          model=a, mesh=b)
    if uniform and s.bnd is not None and s.cls in ("MeshLine1", "MeshTri1",
                                                  "MeshQuad1"):
        for name in s.bnd:
            if ns.bnd is None or name not in ns.bnd:
                raise Bad("tags-boundary-dropped-for-supported-type",
                          name=str(name), mesh=s.cls)
            a, b = s.bnd_measure(name), ns.bnd_measure(name)
            if not _close(a, b, max(a, 1e-300)):
                raise Bad("tags-boundary-measure-differs", name=str(name),
                          model=a, mesh=b)
            if len(ns.bnd[name]) != len(s.bnd[name]) * 2 ** (d - 1):
                raise Bad("tags-boundary-not-children-of-old-facets",
                          name=str(name), expected=len(s.bnd[name]) * 2 ** (d - 1),
                          got=len(ns.bnd[name]))
            # every new tagged facet's midpoint lies on an old tagged facet
            old = [s.p[:, r].T for r in s.bnd[name]]
            ocen = np.array([P.mean(axis=0) for P in old])
            orad = np.array([np.linalg.norm(P - P.mean(axis=0), axis=1).max()
                             for P in old])
            for r in ns.bnd[name]:
                x = ns.p[:, r].mean(axis=1)
                cand = np.nonzero(np.linalg.norm(ocen - x, axis=1) - orad
                                  <= 1e-9)[0]
                if not any(G.dist_point_facet(x, old[j]) <= 1e-9 for j in cand):
                    raise Bad("tags-boundary-not-children-of-old-facets",
                              name=str(name), stray_midpoint=x.tolist())


def _check_restrict(s, ns, keep):
    ns.valid()
    if ns.nt != len(keep):
        raise Bad("surgery-restrict-cells-differ", expected=len(keep), got=ns.nt)
    exp = float(s.meas[keep].sum())
    if not _close(ns.total, exp, s.total):
        raise Bad("domain-total-measure-differs", model=exp, mesh=ns.total)
    # same cells, numbering independent: sorted centroids coincide
    ce = np.sort(G.centroids(s.p, s.t[:, keep], s.kind), axis=1)
    cn = np.sort(G.centroids(ns.p, ns.t, ns.kind), axis=1)
    if ce.shape != cn.shape or np.abs(ce - cn).max() > 1e-12:
        raise Bad("surgery-restrict-cells-differ")
    keepmask = np.zeros(s.nt, dtype=bool)
    keepmask[keep] = True
    if s.sub is not None:
        for name in s.sub:
            if ns.sub is None or name not in ns.sub:
                raise Bad("tags-subdomain-lost-by-restrict", name=str(name))
            old_idx = s.sub[name][keepmask[s.sub[name]]]
            a = float(s.meas[old_idx].sum())
            b = ns.sub_measure(name)
            if len(ns.sub[name]) != len(old_idx) or not _close(a, b, s.total):
                raise Bad("tags-subdomain-designates-other-cells",
                          name=str(name), op="restrict")
            ke = sorted(map(tuple, np.round(G.centroids(
                s.p, s.t[:, old_idx], s.kind).T, 12).tolist()))
            kn = sorted(map(tuple, np.round(G.centroids(
                ns.p, ns.t[:, ns.sub[name]], ns.kind).T, 12).tolist()))
            if ke != kn:
                raise Bad("tags-subdomain-designates-other-cells",
                          name=str(name), op="restrict")
    if s.bnd is not None:
        # a tagged facet survives iff a kept cell contains all its vertices
        for name in s.bnd:
            if ns.bnd is None or name not in ns.bnd:
                raise Bad("tags-boundary-lost-by-restrict", name=str(name))
            exp_keys = []
            for row in s.bnd[name]:
                has = np.ones(s.nt, dtype=bool)
                for v in set(row.tolist()):
                    has &= (s.t == v).any(axis=0)
                if (has & keepmask).any():
                    exp_keys.append(tuple(sorted(map(tuple,
                                                     s.p[:, row].T.tolist()))))
            if sorted(exp_keys) != ns.bnd_keys(name):
                raise Bad("tags-boundary-designates-other-facets",
                          name=str(name), op="restrict",
                          expected=len(exp_keys), got=len(ns.bnd[name]))


def _carried_tags_equal(s, ns, op):
    if s.sub is not None and ns.sub is not None:
        for name in s.sub:
            if name in ns.sub:
                a, b = s.sub_measure(name), ns.sub_measure(name)
                if not _close(a, b, s.total):
                    raise Bad("tags-subdomain-designates-other-cells",
                              name=str(name), op=op)
    if s.bnd is not None and ns.bnd is not None:
        for name in s.bnd:
            if name in ns.bnd and s.bnd_keys(name) != ns.bnd_keys(name):
                raise Bad("tags-boundary-designates-other-facets",
                          name=str(name), op=op)
