"""lineage -- properties C12, C13, C18: seeded mesh-operation histories checked
step by step against an independent geometric reference model.

History facet only: there is no scheduler and no fault injector here (the
code under these properties has no seam for either); what is searched is the
space of operation histories.  See DESIGN.md section 4.
"""
import logging
import random

import numpy as np

from ..core import digest, prng
from ..core.shrink import ddmin
from ..gen import meshes
from ..geom import cells as G
from . import checks as K
from .checks import Bad, Snap

NAME = "lineage"
PROPS = {"C12", "C13", "C18"}
CELL_CAP = 1200
FACET_TAG_CAP = 300
ADAPTIVE = {"MeshLine1", "MeshTri1", "MeshTet1", "MeshTri2", "MeshTet2"}
UNIFORM = {"MeshLine1", "MeshTri1", "MeshQuad1", "MeshTet1", "MeshHex1",
           "MeshTri2", "MeshQuad2", "MeshTet2", "MeshHex2"}
BOUNDARY_PROPAGATING = {"MeshLine1", "MeshTri1", "MeshQuad1"}

OPS_BY_PROP = {
    "C12": {"must": ["refine_uniform"],
            "pool": ["refine_uniform", "refine_uniform", "tag_s", "tag_b",
                     "tag_s", "tag_b", "restrict", "transform", "refine_adaptive",
                     "split", "oriented", "dirty_unused", "join_mixed"]},
    "C13": {"must": ["refine_adaptive"],
            "pool": ["refine_adaptive", "refine_adaptive", "refine_adaptive",
                     "refine_uniform", "tag_s", "tag_s", "tag_b", "restrict",
                     "transform", "oriented", "dirty_unused"]},
    "C18": {"must": ["restrict", "remove", "join", "split", "extrude",
                     "transform", "clean_unused", "clean_duplicate",
                     "restrict_map", "oriented", "join_mixed", "trace"],
            "pool": ["restrict", "remove", "join", "join", "split", "extrude",
                     "dirty_unused",
                     "transform", "transform", "clean_unused",
                     "clean_duplicate", "restrict_map", "oriented", "tag_s",
                     "tag_b", "tag_s", "tag_b", "tag_b", "refine_uniform",
                     "join_mixed", "trace"]},
}


TAG_OPS = {"tag_s", "tag_b"}
JUDGED = {
    "C12": {"refine_uniform"} | TAG_OPS,
    "C13": {"refine_adaptive", "refine_uniform"} | TAG_OPS,
    "C18": {"restrict", "remove", "restrict_map", "join", "join_mixed",
            "dirty_unused",
            "split", "extrude", "transform", "clean_unused",
            "clean_duplicate", "oriented", "trace"} | TAG_OPS,
}


# ----------------------------------------------------------------- generation
def _gen_op(rng, name):
    sd = rng.randrange(1 << 30)
    if name == "refine_uniform":
        return {"op": name, "k": rng.choice([1, 1, 1, 2])}
    if name == "refine_adaptive":
        return {"op": name, "mark": rng.choice(
            ["random", "random", "single", "all", "empty", "around-vertex",
             "subdomain", "bitmask", "bitmask"]),
            "frac": rng.choice([0.1, 0.3, 0.6]), "seed": sd,
            "dtype": rng.choice(["int32", "int64", "list", "tuple"]),
            "repeat": rng.random() < 0.2}
    if name in ("restrict", "remove", "restrict_map"):
        return {"op": name, "frac": rng.choice([0.2, 0.5, 0.8, 1.0]),
                "seed": sd, "how": rng.choice(["array", "array", "pred", "name"]),
                "order": rng.choice(["sorted", "sorted", "reversed",
                                     "shuffled"]),
                "skip_b": rng.random() < 0.15, "skip_s": rng.random() < 0.15}
    if name == "tag_s":
        return {"op": name, "name": rng.choice(["s", "sub", "s2", "omega"]),
                "frac": rng.choice([0.0, 0.1, 0.3, 0.5, 0.9]), "seed": sd,
                "how": rng.choice(["idx", "idx", "pred"]),
                "idx_dtype": rng.choice(["int32", "int64"]),
                "axis": rng.randrange(3), "c": rng.choice([0.3, 0.5, 0.7])}
    if name == "tag_b":
        return {"op": name, "name": rng.choice(["b", "bnd", "b2", "gamma"]),
                "frac": rng.choice([0.0, 0.1, 0.3, 0.5, 1.0]), "seed": sd,
                "where": rng.choice(["boundary", "interior", "any", "any"]),
                "idx_dtype": rng.choice(["int32", "int64"]),
                "oriented": rng.random() < 0.25}
    if name == "transform":
        return {"op": name, "kind": rng.choice(["scaled", "translated",
                                                "mirrored", "morphed"]),
                "v": [round(rng.uniform(0.5, 2.0) * rng.choice([1, 1, -1]), 3)
                      for _ in range(3)],
                "A": [round(rng.uniform(-0.4, 0.4), 3) for _ in range(9)]}
    if name == "join":
        return {"op": name, "with": rng.choice(["shifted-copy", "mirror",
                                                "disjoint", "fresh"]),
                "seed": sd, "axis": rng.randrange(3)}
    if name == "join_mixed":
        return {"op": name, "seed": sd,
                "continue_with_part": rng.random() < 0.5}
    if name == "dirty_unused":
        return {"op": name, "extra": rng.choice([1, 2, 4]), "seed": sd,
                "trailing": rng.random() < 0.6}
    if name == "split":
        return {"op": name, "style": rng.choice([None, "x"]),
                "with_x": rng.random() < 0.4, "seed": sd}
    if name == "extrude":
        return {"op": name, "n": rng.choice([1, 2, 3]), "seed": sd,
                "line": rng.choice(["sorted", "sorted", "descending",
                                    "permuted", "refined"])}
    if name in ("clean_unused", "clean_duplicate"):
        return {"op": name, "extra": rng.choice([1, 2, 5]), "seed": sd}
    if name == "oriented":
        return {"op": name}
    if name == "trace":
        return {"op": name, "frac": rng.choice([0.3, 1.0]), "seed": sd}
    raise ValueError(name)


def _applicable(name, kind, order2):
    if name == "split":
        return kind in ("quad", "hex", "wedge") and not order2
    if name == "extrude":
        return kind in ("line", "tri") and not order2
    if name in ("clean_unused", "clean_duplicate", "dirty_unused", "join",
                "join_mixed"):
        if order2:
            return False
        if name == "join_mixed":
            return kind in ("tri", "quad", "tet", "hex")
        return True
    if name == "oriented":
        return kind in ("line", "tri", "tet") and not order2
    if name == "trace":
        return kind in ("tri", "quad", "tet") and not order2
    if name == "refine_adaptive":
        return kind in ("line", "tri", "tet") or True   # unsupported kinds are probed too, rarely
    return True


def generate(prop, rng, tier):
    spec = OPS_BY_PROP[prop]
    cells = {"C12": ["line", "tri", "tri", "quad", "quad", "tet", "hex"],
             "C13": ["line", "tri", "tri", "tri", "tet", "tet"],
             "C18": ["line", "tri", "tri", "quad", "quad", "tet", "hex",
                     "wedge"]}[prop]
    cell = rng.choice(cells)
    max_n = {"line": 6, "tri": 3, "quad": 3, "tet": 2, "hex": 2,
             "wedge": 2}[cell]
    rec = meshes.random_recipe(rng, [cell], max_n=max_n,
                               order2=0.2 if prop != "C18" else 0.1)
    if prop == "C13" and cell == "tet" and rng.random() < 0.3:
        # long bisection chains: slivers with most of the cells marked
        rec = dict(rec, family="tet-sliver", n=rng.choice([1, 2, 3, 4]))
    nops = rng.choice([2, 3, 4, 5, 6, 8])
    # swarm: a random subset of the op pool is enabled for this run
    pool = list(spec["pool"])
    if rng.random() < 0.1:
        # thin plates and needles; Mesh.__add__ rounds coordinates to 8
        # decimals absolutely, which is no longer small against a cell that
        # is 0.003 thick, so joins stay out of these histories
        rec["stretch"] = rng.choice([[1.0, 0.1, 0.02], [0.05, 1.0, 1.0],
                                     [1.0, 1.0, 0.03], [1.0, 0.02, 1.0],
                                     [0.2, 1.0, 0.05]])
        pool = [n for n in pool if n not in ("join", "join_mixed")]
        if rec["family"] == "tet-sliver":
            rec.pop("stretch")      # thin twice over: nothing but rounding
    if prop in ("C12", "C13") and rng.random() < 0.12:
        # the same geometry in other units; operations whose library code
        # (or whose check here) works with absolute coordinates stay out
        rec["scale"] = rng.choice([1e-3, 3e-4, 1e-4, 1e3])
        pool = [n for n in pool if n in ("refine_uniform", "refine_adaptive",
                                         "tag_s", "tag_b", "restrict",
                                         "oriented", "dirty_unused")]
    enabled = sorted(set(pool))
    drop = [n for n in enabled if rng.random() < 0.25]
    pool = [n for n in pool if n not in drop] or \
        (list(spec["pool"]) if not (rec.get("scale") or rec.get("stretch"))
         else [n for n in spec["must"] if n not in ("join", "join_mixed")])
    # choose operations that apply to the cell kind the history has at that
    # point (tracked statically: split and extrude change it)
    kind, o2 = cell, rec.get("order", 1) == 2
    ops = []
    for _ in range(nops):
        for _try in range(8):
            name = rng.choice(pool)
            if _applicable(name, kind, o2):
                break
        else:
            name = "tag_s"
        o = _gen_op(rng, name)
        if not o.get("discard_hint"):
            pass
        ops.append(o)
        if name == "split" and kind in ("quad", "hex", "wedge") and not o2:
            kind = "tri" if kind == "quad" else "tet"
        elif name == "extrude" and kind in ("line", "tri") and not o2:
            kind = "quad" if kind == "line" else "wedge"
    for o in ops:
        # branch: apply the operation, judge its result, then go on from the
        # PARENT mesh object (which has meanwhile been an operand and has
        # warm caches) instead of from the result
        if o["op"] in ("refine_uniform", "refine_adaptive", "restrict",
                       "remove", "transform", "split", "oriented") \
                and rng.random() < 0.2:
            o["discard"] = True
        if rng.random() < 0.25:
            o["warm"] = True      # touch the lazily built tables first
    # the property's own operation is always present, after some prefix
    pos = rng.randint(0, len(ops))
    kpos, o2pos = cell, rec.get("order", 1) == 2
    for o in ops[:pos]:
        if o["op"] == "split" and kpos in ("quad", "hex", "wedge") and not o2pos:
            kpos = "tri" if kpos == "quad" else "tet"
        elif o["op"] == "extrude" and kpos in ("line", "tri") and not o2pos:
            kpos = "quad" if kpos == "line" else "wedge"
    musts = [n for n in spec["must"] if _applicable(n, kpos, o2pos)
             and not (rec.get("stretch") and n in ("join", "join_mixed"))] \
        or list(spec["must"])
    ops.insert(pos, _gen_op(rng, rng.choice(musts)))
    if rec["family"] == "tet-sliver":
        for o in ops:
            if o["op"] == "refine_adaptive" and rng.random() < 0.7:
                o["mark"] = rng.choice(["all", "random", "random"])
                o["frac"] = 0.6
    # tags early so that they travel
    if rng.random() < 0.8:
        ops.insert(0, _gen_op(rng, "tag_s"))
    if rng.random() < 0.7:
        ops.insert(0, _gen_op(rng, "tag_b"))
    return {"prop": prop, "recipe": rec, "ops": ops,
            "probe_seed": rng.randrange(1 << 30)}


# ----------------------------------------------------------------- helpers
class WarnCatcher(logging.Handler):
    def __init__(self):
        super().__init__(level=logging.WARNING)
        self.records = []

    def emit(self, record):
        self.records.append(record.getMessage())


def _subset(n, frac, seed, at_least=1):
    r = random.Random(seed)
    if frac == 0.0:
        at_least = 0          # an empty selection, on purpose
    k = max(at_least, min(n, int(round(frac * n))))
    return np.array(sorted(r.sample(range(n), k)), dtype=np.int32)


def _probe_cloud(s, seed, n_in=60, n_out=25):
    """Probe points strictly inside seeded cells + points around the mesh,
    labelled inside/outside by own point location."""
    g = np.random.Generator(np.random.PCG64(seed))
    nv = G.NV[s.kind]
    cells = g.integers(0, s.nt, size=n_in)
    w = g.uniform(0.2, 1.0, size=(nv, n_in))
    w /= w.sum(axis=0)
    V = G.verts(s.p, s.t, s.kind)[:, :, cells]          # (nv, dim, n)
    pin = np.einsum("vdn,vn->dn", V, w)
    lo, hi = s.p.min(axis=1), s.p.max(axis=1)
    span = np.maximum(hi - lo, 1e-3)
    pout = lo[:, None] - 0.3 * span[:, None] + \
        g.uniform(0, 1, size=(s.dim, n_out)) * 1.6 * span[:, None]
    pts = np.hstack((pin, pout))
    loc = G.locate(pts, s.p, s.t, s.kind, tol=1e-7)
    inside = np.array([len(h) > 0 for h in loc])
    # drop points too close to any facet of the initial mesh
    keep = np.array([all(m > 1e-6 for _, m in h) for h in loc])
    return pts[:, keep], inside[keep]


# ----------------------------------------------------------------- the run
class State:
    """Current mesh + the model carried through the history."""

    def __init__(self, mesh, probe_seed):
        self.m = mesh
        self.s = Snap(mesh)
        self.pts, self.inside = _probe_cloud(self.s, probe_seed)
        self.labels = {}          # subdomain name -> bool per probe point
        self.sub_meas = {}        # subdomain name -> measure
        self.bnd_meas = {}        # boundary name -> measure
        self.bnd_samples = {}     # boundary name -> (k, dim) sample points
        self.total = self.s.total()
        # the mesh may legitimately carry vertices no cell uses (a part
        # returned by `@`, or a mesh built that way on purpose) until
        # remove_unused_nodes is called
        self.allow_unused = False


def _label_points(st, name):
    """Recompute the label of every probe point for subdomain ``name`` from
    the current (already validated) mesh geometry."""
    s = st.s
    idx = s.sub[name]
    lab = np.zeros(st.pts.shape[1], dtype=bool)
    if len(idx):
        loc = G.locate(st.pts, s.p, s.t[:, idx], s.kind, tol=1e-7)
        lab = np.array([len(h) > 0 for h in loc])
    st.labels[name] = lab
    st.sub_meas[name] = float(s.meas[0][idx].sum()) if len(idx) else 0.0


def _record_boundary(st, name):
    s = st.s
    keys = K.actual_boundary_keys(s, name)
    polys = [s.facet_poly(k) for k in keys]
    st.bnd_meas[name] = float(sum(G.poly_measure(P) for P in polys))
    st.bnd_samples[name] = np.array([P.mean(axis=0) for P in polys]) \
        if polys else np.zeros((0, s.dim))


def _check_tags_against_model(st, probes, where):
    """End-to-end: carried names still designate the same geometry as the
    model says (probe points, sample points, measures)."""
    s = st.s
    sc = K.scale_of(s.p)
    if s.sub is not None:
        for name, lab in st.labels.items():
            if name not in s.sub:
                continue
            idx = K.check_sub_indices(s, name)
            m = float(s.meas[0][idx].sum()) if len(idx) else 0.0
            if abs(m - st.sub_meas[name]) > K.MTOL * max(st.total, 1e-300):
                raise Bad("tags-subdomain-measure-differs", name=name,
                          model=st.sub_meas[name], mesh=m, after=where)
            got = np.zeros(st.pts.shape[1], dtype=bool)
            amb = np.zeros(st.pts.shape[1], dtype=bool)
            if len(idx):
                loc = G.locate(st.pts, s.p, s.t[:, idx], s.kind, tol=1e-7)
                got = np.array([len(h) > 0 for h in loc])
                amb = np.array([any(mg <= 1e-7 for _, mg in h) for h in loc])
            # points near any facet of the *current* mesh are ambiguous
            loc_all = G.locate(st.pts, s.p, s.t, s.kind, tol=1e-7)
            amb |= np.array([any(mg <= 1e-7 for _, mg in h) or len(h) > 1
                             for h in loc_all])
            probes["ambiguous_points_skipped"] = \
                probes.get("ambiguous_points_skipped", 0) + int(amb.sum())
            bad = (got != (lab & st.inside)) & ~amb
            if bad.any():
                i = int(np.nonzero(bad)[0][0])
                raise Bad("tags-subdomain-covers-other-points", name=name,
                          point=st.pts[:, i].tolist(), model=bool(lab[i]),
                          mesh=bool(got[i]), after=where)
    if s.bnd is not None:
        for name, meas in st.bnd_meas.items():
            if name not in s.bnd:
                continue
            keys = K.actual_boundary_keys(s, name)
            polys = [s.facet_poly(k) for k in keys]
            m = float(sum(G.poly_measure(P) for P in polys))
            if abs(m - meas) > K.MTOL * max(meas, 1e-300) and \
                    abs(m - meas) > 1e-12 * sc:
                raise Bad("tags-boundary-measure-differs", name=name,
                          model=meas, mesh=m, after=where)
            if polys:
                cen = np.array([P.mean(axis=0) for P in polys])
                rad = np.array([np.linalg.norm(P - P.mean(axis=0), axis=1).max()
                                for P in polys])
            for x in st.bnd_samples[name]:
                cand = np.nonzero(np.linalg.norm(cen - x, axis=1) - rad
                                  <= K.FTOL * sc)[0] if polys else []
                if not any(G.dist_point_facet(x, polys[j]) <= K.FTOL * sc
                           for j in cand):
                    raise Bad("tags-boundary-misses-model-sample", name=name,
                              point=x.tolist(), after=where)


def _apply_map_to_model(st, f, det):
    st.pts = f(st.pts)
    for name in st.bnd_samples:
        if len(st.bnd_samples[name]):
            st.bnd_samples[name] = f(st.bnd_samples[name].T).T
    d = G.DIM[st.s.kind]
    st.total *= abs(det)
    for name in st.sub_meas:
        st.sub_meas[name] *= abs(det)


def _drop_model_tags(st, s_new):
    """Forget model entries for names the result does not carry."""
    for name in list(st.labels):
        if s_new.sub is None or name not in s_new.sub:
            st.labels.pop(name)
            st.sub_meas.pop(name)
    for name in list(st.bnd_meas):
        if s_new.bnd is None or name not in s_new.bnd:
            st.bnd_meas.pop(name)
            st.bnd_samples.pop(name)


def _marked(st, o):
    s = st.s
    r = random.Random(o["seed"])
    how = o["mark"]
    if how == "empty":
        ix = []
    elif how == "single":
        ix = [r.randrange(s.nt)]
    elif how == "all":
        ix = list(range(s.nt))
    elif how == "around-vertex":
        v = r.randrange(s.nv)
        ix = sorted(np.nonzero((s.t == v).any(axis=0))[0].tolist()) or [0]
    elif how == "bitmask" and s.nt <= 24:
        # uniform over ALL subsets of the cells of a small mesh
        bits = r.getrandbits(s.nt)
        ix = [c for c in range(s.nt) if (bits >> c) & 1]
    elif how == "subdomain" and s.sub:
        name = sorted(s.sub)[0]
        ix = sorted(s.sub[name].tolist())
    else:
        ix = _subset(s.nt, o["frac"], o["seed"]).tolist()
    if o["dtype"] == "list":
        return [int(i) for i in ix], ix
    if o["dtype"] == "tuple":
        return tuple(int(i) for i in ix), ix
    arr = np.array(ix, dtype=o["dtype"])
    if o.get("repeat") and len(ix):
        # the same cell listed more than once (e.g. the owner cells of all
        # boundary facets): still the same SET of marked cells
        extra = [ix[r.randrange(len(ix))] for _ in range(r.randint(1, 3))]
        arr = np.concatenate((arr, np.array(extra, dtype=o["dtype"])))
        r.shuffle(arr)
    return arr, ix


# ----------------------------------------------------------------- steps
def step(st, o, prop, probes, faults):
    """Apply one op through the public API, check the result against own
    geometry, advance the model.  Returns a short tag for the log."""
    import skfem
    from skfem import mesh as skm
    m, s = st.m, st.s
    name = o["op"]
    cls = s.cls
    catcher = WarnCatcher()
    lg = logging.getLogger("skfem")
    lg.addHandler(catcher)
    old_prop = lg.propagate
    lg.propagate = False
    try:
        if o.get("warm"):
            try:
                m.facets, m.t2f, m.f2t
                if s.dim == 3:
                    m.edges, m.t2e
                _bump(probes, "lazy-tables-warmed-before-op")
                _library_view(m, s, probes, warm_only=True)
            except Exception:
                pass
        if not o.get("discard"):
            tag = _step(st, o, prop, probes, faults, catcher, skm)
            if st.m is not m:
                _library_view(st.m, st.s, probes)
            return tag
        saved = (st.m, st.s, st.pts, st.inside, dict(st.labels),
                 dict(st.sub_meas), dict(st.bnd_meas), dict(st.bnd_samples),
                 st.total, st.allow_unused)
        try:
            tag = _step(st, o, prop, probes, faults, catcher, skm)
            if st.m is not m:
                _library_view(st.m, st.s, probes)
        finally:
            (st.m, st.s, st.pts, st.inside, st.labels, st.sub_meas,
             st.bnd_meas, st.bnd_samples, st.total, st.allow_unused) = saved
        _bump(probes, "result-discarded-parent-reused")
        return "discarded:" + str(tag)
    finally:
        lg.removeHandler(catcher)
        lg.propagate = old_prop


def _bump(d, k, n=1):
    d[k] = d.get(k, 0) + n


def _thin_cells(s):
    meas, _ = s.meas
    h = G.diameters(s.p, s.t, s.kind)
    d = G.DIM[s.kind]
    thick = meas / np.maximum(h, 1e-300) ** (d - 1) if d > 1 else meas
    return bool(len(thick)) and float(thick.min()) < 5e-3


# a point strictly inside the reference cell that lies on no diagonal or
# symmetry plane (the library locates points in quadrilaterals / hexahedra
# through a split into simplices: the cell centre sits on the cut)
_REF_GENERIC = {"line": [0.41], "tri": [0.37, 0.21], "quad": [0.41, 0.23],
                "tet": [0.33, 0.19, 0.11], "hex": [0.41, 0.23, 0.31],
                "wedge": [0.37, 0.21, 0.43]}
_REF_CENTRE = {"line": [0.5], "tri": [1 / 3, 1 / 3], "quad": [0.5, 0.5],
               "tet": [0.25, 0.25, 0.25], "hex": [0.5, 0.5, 0.5],
               "wedge": [1 / 3, 1 / 3, 0.5]}


def _library_view(m, s, probes, warm_only=False):
    """The library's own derived view of a (first-order) result mesh agrees
    with its arrays: the default mapping sends the centre of the reference
    cell to the centre of each cell, and the element finder returns, for the
    centre of a cell, that cell.  (A mesh whose p and t are right but whose
    mapping / search tree belong to another mesh is not a valid mesh.)"""
    if s.order2 or s.nt == 0:
        return
    X = np.array(_REF_CENTRE[s.kind])[:, None]
    mp = m.mapping()
    F = np.asarray(mp.F(X))[:, :, 0]
    V = G.verts(s.p, s.t, s.kind)                         # (nv, dim, nt)
    own = V.mean(axis=0)                                  # (dim, nt)
    sel = np.unique(np.linspace(0, s.nt - 1, min(s.nt, 6)).astype(int))
    Ng, _ = G.shape(s.kind, np.array(_REF_GENERIC[s.kind])[:, None])
    gen = np.einsum("vdn,v->dn", V[:, :, sel], Ng[:, 0])  # (dim, len(sel))
    found = None
    try:
        finder = m.element_finder()
        found = np.asarray(finder(*[gen[d] for d in range(s.dim)]))
    except NotImplementedError:
        pass
    except ValueError:
        # the library's search is heuristic (nearest centroids of a split
        # into simplices); not finding a point is not judged here
        _bump(probes, "library-finder-raised")
    if warm_only:
        return
    _bump(probes, "library-view-checked")
    sc = K.scale_of(s.p)
    if F.shape != own.shape or np.abs(F - own).max() > 1e-9 * sc:
        raise Bad("valid-library-mapping-disagrees-with-arrays",
                  max_diff=float(np.abs(F - own).max())
                  if F.shape == own.shape else None)
    if found is None:
        return
    # judged only where own point location is clear-cut (one cell, well
    # inside): the cell the library returns must be that cell
    loc = G.locate(gen, s.p, s.t, s.kind, tol=1e-7)
    for j, c in enumerate(sel.tolist()):
        h = loc[j]
        if len(h) == 1 and h[0][0] == c and h[0][1] > 1e-3 \
                and int(found[j]) != c:
            raise Bad("valid-library-finder-returns-other-cell",
                      cell=int(c), found=int(found[j]))


def _step(st, o, prop, probes, faults, catcher, skm):
    m, s = st.m, st.s
    name = o["op"]
    cls = s.cls
    d = G.DIM[s.kind]

    # ------------------------------------------------------------ tagging
    if name == "tag_s":
        if o["how"] == "idx":
            idx = _subset(s.nt, o["frac"], o["seed"]).astype(
                o.get("idx_dtype", "int32"))
            r = m.with_subdomains({o["name"]: idx})
        else:
            ax = o["axis"] % s.dim
            lo, hi = s.p[ax].min(), s.p[ax].max()
            c = lo + o["c"] * (hi - lo)
            r = m.with_subdomains({o["name"]: lambda x: x[ax] < c})
        st.m, st.s = r, Snap(r)
        _same_geometry(s, st.s)
        K.check_sub_indices(st.s, o["name"])
        _label_points(st, o["name"])
        _bump(probes, "tag-subdomain")
        return "tag_s:%d" % len(st.s.sub[o["name"]])
    if name == "tag_b":
        keys = sorted(s.ftab)
        if o["where"] == "boundary":
            keys = [k for k in keys if len(s.ftab[k]) == 1]
        elif o["where"] == "interior":
            keys = [k for k in keys if len(s.ftab[k]) == 2] or keys
        sel = [keys[i] for i in _subset(len(keys), o["frac"], o["seed"])]
        if len(sel) > FACET_TAG_CAP:
            sel = [sel[i] for i in _subset(len(sel), FACET_TAG_CAP / len(sel),
                                           o["seed"] + 7)]
        # find the designated facets in the mesh's own facet table
        fac = np.array(m.facets)
        lookup = {tuple(sorted(set(fac[:, j].tolist()))): j
                  for j in range(fac.shape[1])}
        missing = [k for k in sel if k not in lookup]
        if missing:
            raise Bad("valid-facet-table-lacks-facet", facet=list(missing[0]))
        idx = np.array(sorted(lookup[k] for k in sel),
                       dtype=o.get("idx_dtype", "int32"))
        if o["oriented"]:
            from skfem.generic_utils import OrientedBoundary
            orr = np.array([random.Random(o["seed"] + 1 + i).randrange(
                len(s.ftab[k])) for i, k in enumerate(
                    sorted(sel, key=lambda k: lookup[k]))], dtype=int)
            idx = OrientedBoundary(idx, orr)
            _bump(probes, "tag-oriented-boundary")
        r = m.with_boundaries({o["name"]: idx})
        st.m, st.s = r, Snap(r)
        _same_geometry(s, st.s)
        _record_boundary(st, o["name"])
        if any(len(s.ftab[k]) == 2 for k in sel):
            _bump(probes, "tag-interior-facets")
        return "tag_b:%d" % len(idx)

    # ------------------------------------------------------------ refinement
    if name == "refine_uniform":
        if cls not in UNIFORM:
            return _expect_unsupported(lambda: m.refined(1), "uniform:" + cls,
                                       probes)
        k = int(o["k"])
        if s.nt * (2 ** (d * k)) > CELL_CAP:
            k = 1
        if s.nt * (2 ** d) > CELL_CAP:
            _bump(probes, "op-skipped-size-cap")
            return "skipped-cap"
        r = _call(lambda: m.refined(k), "refined(%d)" % k, cls)
        ns = Snap(r)
        _check_refinement(st, ns, prop, probes, catcher, uniform_steps=k)
        st.m, st.s = r, ns
        _bump(probes, "uniform-refinement-steps", k)
        return "uniform:%d" % ns.nt
    if name == "refine_adaptive":
        if cls not in ADAPTIVE:
            return _expect_unsupported(
                lambda: m.refined(np.array([0], dtype=np.int32)),
                "adaptive:" + cls, probes)
        if s.nt * 4 > CELL_CAP:
            _bump(probes, "op-skipped-size-cap")
            return "skipped-cap"
        marked, ix = _marked(st, o)
        r = _call(lambda: m.refined(marked), "refined(marked)", cls,
                  marked=ix[:20])
        ns = Snap(r)
        _check_refinement(st, ns, prop, probes, catcher, marked=ix)
        if r.boundaries is not None:
            # not judged (see _check_refinement): carry the mesh on without
            # them so that no later step takes them for ground truth
            from dataclasses import replace as _replace
            r = _replace(r, _boundaries=None)
            ns = Snap(r)
        st.m, st.s = r, ns
        _bump(probes, "adaptive-refinement-steps")
        _bump(probes, "marked-" + o["mark"])
        return "adaptive:%d" % ns.nt

    # ------------------------------------------------------------ restrict
    if name in ("restrict", "remove", "restrict_map"):
        keep = _subset(s.nt, o["frac"], o["seed"])
        if o.get("order") == "reversed":
            keep = keep[::-1].copy()
            _bump(probes, "restrict-unsorted-index-array")
        elif o.get("order") == "shuffled":
            keep = keep.copy()
            random.Random(o["seed"] + 3).shuffle(keep)
            _bump(probes, "restrict-unsorted-index-array")
        if name == "remove":
            rem = np.setdiff1d(np.arange(s.nt, dtype=np.int32), keep)
            if len(rem) == 0:
                rem = keep[:1]
                keep = np.setdiff1d(np.arange(s.nt, dtype=np.int32), rem)
            if len(keep) == 0:
                _bump(probes, "op-skipped-would-empty")
                return "skipped"
            r = _call(lambda: m.remove_elements(rem), "remove_elements", cls)
            ix = None
        elif name == "restrict_map":
            r, ix = _call(lambda: m.restrict(keep, return_mapping=True),
                          "restrict(return_mapping)", cls)
        else:
            sel = keep
            if o["how"] == "name" and s.sub:
                nm = sorted(s.sub)[0]
                if len(s.sub[nm]):
                    sel = nm
                    keep = np.array(sorted(set(s.sub[nm].tolist())),
                                    dtype=np.int32)
                    _bump(probes, "restrict-by-subdomain-name")
            elif o["how"] == "pred":
                # a predicate on the cell midpoints, with a threshold that no
                # midpoint comes close to (own midpoints, same definition)
                ax = o["seed"] % s.dim
                mid = s.p[:, s.t].mean(axis=1)[ax]
                srt = np.sort(mid)
                gaps = np.diff(srt)
                if len(gaps) and gaps.max() > 1e-6 * max(1.0, abs(srt).max()):
                    g = int(np.argmax(gaps))
                    c = 0.5 * (srt[g] + srt[g + 1])
                    sel = lambda x: x[ax] < c
                    keep = np.nonzero(mid < c)[0].astype(np.int32)
                    _bump(probes, "restrict-by-predicate")
            elif o["how"] == "array" and len(keep) >= 2 and o["seed"] % 3 == 0:
                # a list of selectors (two index arrays), normalised by the
                # library to their sorted union
                h = len(keep) // 2
                sel = [keep[:h].copy(), keep[h:].copy()]
                keep = np.unique(keep).astype(np.int32)
                _bump(probes, "restrict-by-list-of-arrays")
            skw = {}
            if o.get("skip_b"):
                skw["skip_boundaries"] = True
            if o.get("skip_s"):
                skw["skip_subdomains"] = True
            r = _call(lambda: m.restrict(sel, **skw), "restrict", cls)
            ix = None
            if skw:
                # retagging skipped: the names of that kind must be GONE (an
                # old index array would designate other entities)
                if o.get("skip_b") and r.boundaries is not None:
                    raise Bad("tags-kept-although-retagging-was-skipped",
                              what="boundaries")
                if o.get("skip_s") and r.subdomains is not None:
                    raise Bad("tags-kept-although-retagging-was-skipped",
                              what="subdomains")
                from dataclasses import replace as _replace
                m = _replace(m, **({"_boundaries": None} if o.get("skip_b") else {}),
                             **({"_subdomains": None} if o.get("skip_s") else {}))
                st.m, st.s = m, Snap(m)
                _drop_model_tags(st, st.s)
                s = st.s
                _bump(probes, "restrict-with-skip-flags")
        ns = Snap(r)
        _check_restrict(st, ns, keep, ix, probes)
        st.m, st.s = r, ns
        return "%s:%d" % (name, ns.nt)

    # ------------------------------------------------------------ transform
    if name == "transform":
        v = np.array(o["v"][:s.dim])
        kind = o["kind"]
        if kind == "scaled":
            r = _call(lambda: m.scaled(tuple(v.tolist())), "scaled", cls)
            f = lambda P: P * v[:, None]
            det = float(np.prod(v))
        elif kind == "translated":
            r = _call(lambda: m.translated(tuple(v.tolist())), "translated", cls)
            f = lambda P: P + v[:, None]
            det = 1.0
        elif kind == "mirrored":
            n = v / np.linalg.norm(v)
            p0 = 0.3 * v
            r = _call(lambda: m.mirrored(tuple(v.tolist()), tuple(p0.tolist())),
                      "mirrored", cls)
            f = lambda P: P - 2.0 * (n @ (P - p0[:, None]))[None, :] * n[:, None]
            det = -1.0
        else:
            A = np.eye(s.dim) + np.array(o["A"]).reshape(3, 3)[:s.dim, :s.dim]
            if abs(np.linalg.det(A)) < 0.2:
                A = np.eye(s.dim)
            funcs = [(lambda P, i=i: A[i] @ P) for i in range(s.dim)]
            r = _call(lambda: m.morphed(*funcs), "morphed", cls)
            f = lambda P: A @ P
            det = float(np.linalg.det(A))
        ns = Snap(r)
        _check_transform(st, ns, f, det)
        _apply_map_to_model(st, f, det)
        for nm in st.bnd_meas:
            pass
        st.m, st.s = r, ns
        # facet measures do not scale by det: recompute from the (bitwise
        # unchanged) tag arrays on the validated new geometry
        for nm in list(st.bnd_meas):
            _record_boundary(st, nm)
        _bump(probes, "transform-" + kind)
        return "transform:" + kind

    # ------------------------------------------------------------ join
    if name in ("join", "join_mixed") and _thin_cells(s):
        # Mesh.__add__ / __matmul__ round coordinates to 8 decimals,
        # absolutely (documented behaviour): against cells thinner than
        # 5e-3 that is no longer below the tolerances used here
        _bump(probes, "op-skipped-join-of-thin-cells")
        return "skipped-thin"
    if name == "join":
        other = _join_partner(st, o, skm)
        if other is None:
            _bump(probes, "op-skipped-no-partner")
            return "skipped"
        r = _call(lambda: m + other, "__add__", cls)
        ns = Snap(r)
        so = Snap(other)
        _check_join(st, so, ns, probes)
        st.m, st.s = r, ns
        # model: union; the sum carries no tags
        pts2, in2 = _probe_cloud(so, o["seed"] + 5, 30, 0)
        loc = G.locate(st.pts, so.p, so.t, so.kind, tol=1e-7)
        near = np.array([any(mg <= 1e-6 for _, mg in h) for h in loc])
        st.inside = st.inside | np.array([len(h) > 0 for h in loc])
        keep = ~near
        st.pts, st.inside = st.pts[:, keep], st.inside[keep]
        loc1 = G.locate(pts2, s.p, s.t, s.kind, tol=1e-6)
        ok2 = np.array([len(h) == 0 for h in loc1])
        st.pts = np.hstack((st.pts, pts2[:, ok2]))
        st.inside = np.concatenate((st.inside, in2[ok2]))
        st.labels, st.sub_meas, st.bnd_meas, st.bnd_samples = {}, {}, {}, {}
        st.total = ns.total()
        _bump(probes, "join-" + o["with"])
        return "join:%d" % ns.nt
    if name == "join_mixed":
        return _join_mixed(st, o, skm, probes)
    if name == "dirty_unused":
        return _dirty_unused(st, o, probes)

    # ------------------------------------------------------------ split
    if name == "split":
        xvals = None
        if s.kind == "quad" and not s.order2:
            style = o["style"]
            if o.get("with_x"):
                xvals = np.random.Generator(np.random.PCG64(
                    o.get("seed", 1))).standard_normal(s.nt)
                r, X = _call(lambda: m.to_meshtri(x=xvals, style=style),
                             "to_meshtri(x)", cls)
            else:
                r = _call(lambda: m.to_meshtri(style=style), "to_meshtri", cls)
            per = 4 if style == "x" else 2
        elif s.kind in ("hex", "wedge") and not s.order2:
            if not _planar_faces(s):
                # a cell with non-planar (bilinear) faces has no exact
                # decomposition into straight tetrahedra: not a case the
                # statement can mean
                _bump(probes, "op-skipped-nonplanar-faces")
                return "skipped"
            r = _call(lambda: m.to_meshtet(), "to_meshtet", cls)
            per = 6 if s.kind == "hex" else 3
        else:
            _bump(probes, "op-skipped-not-applicable")
            return "skipped"
        ns = Snap(r)
        parent = _check_split(st, ns, per, probes)
        if xvals is not None:
            # the elementwise constant function must keep its values: every
            # triangle carries the value of the quadrilateral it lies in
            X = np.asarray(X)
            if X.shape != (ns.nt,) or not (X == xvals[parent]).all():
                raise Bad("indexmap-elementwise-values-not-carried",
                          expected_shape=[int(ns.nt)], got_shape=list(X.shape))
            _bump(probes, "elementwise-values-carried-through-split")
        st.m, st.s = r, ns
        _bump(probes, "split-" + s.kind)
        return "split:%d" % ns.nt

    # ------------------------------------------------------------ extrude
    if name == "extrude":
        if s.kind not in ("line", "tri") or s.order2:
            _bump(probes, "op-skipped-not-applicable")
            return "skipped"
        g = random.Random(o["seed"])
        z = np.cumsum([0.0] + [g.uniform(0.3, 1.0) for _ in range(o["n"])])
        # the same segment mesh in different (all legal) representations
        how = o.get("line", "sorted")
        if how == "descending":
            line = skm.MeshLine(np.array(z[::-1]))
        elif how == "permuted" and len(z) > 2:
            tt = np.vstack((np.arange(len(z) - 1), np.arange(1, len(z))))
            perm = list(range(tt.shape[1]))
            g.shuffle(perm)
            tt = tt[:, perm]
            flip = [c for c in range(tt.shape[1]) if g.random() < 0.5]
            tt[:, flip] = tt[::-1, flip]
            line = skm.MeshLine1(np.array([z]), tt.astype(np.int32))
        elif how == "refined":
            line = skm.MeshLine(np.array([z[0], z[-1]])).refined(1)
            line = line.refined(np.array([0], dtype=np.int32))
            z = np.sort(np.array(line.p[0]))
        else:
            line = skm.MeshLine(np.array(z))
        _bump(probes, "extrude-line-representation-" + how)
        r = _call(lambda: m * line, "__mul__", cls)
        ns = Snap(r)
        _check_extrude(st, ns, z, probes)
        st.m, st.s = r, ns
        # model: product with [z0, z1]
        g2 = np.random.Generator(np.random.PCG64(o["seed"]))
        zz = g2.uniform(z[0] + 1e-3, z[-1] - 1e-3, size=st.pts.shape[1])
        for b in z[1:-1]:
            zz = np.where(np.abs(zz - b) < 1e-4, zz + 3e-4, zz)
        st.pts = np.vstack((st.pts, zz[None, :]))
        st.labels, st.sub_meas, st.bnd_meas, st.bnd_samples = {}, {}, {}, {}
        st.total = ns.total()
        _bump(probes, "extrude-" + s.kind)
        return "extrude:%d" % ns.nt

    # ------------------------------------------------------------ clean-up
    if name in ("clean_unused", "clean_duplicate"):
        if s.order2:
            _bump(probes, "op-skipped-not-applicable")
            return "skipped"
        return _clean(st, o, skm, probes)
    if name == "oriented":
        if s.kind not in ("line", "tri", "tet") or s.order2:
            _bump(probes, "op-skipped-not-applicable")
            return "skipped"
        r = _call(lambda: m.oriented(), "oriented", cls)
        ns = Snap(r)
        _same_cells(s, ns)
        if not (ns.p == s.p).all():
            raise Bad("surgery-oriented-moved-vertices")
        sg = G.orientation_sign(ns.p, ns.t, ns.kind)
        if (sg <= 0).any():
            raise Bad("surgery-oriented-left-negative-cell",
                      cells=np.nonzero(sg <= 0)[0][:5].tolist())
        st.m, st.s = r, ns
        _drop_model_tags(st, ns)
        _check_tags_against_model(st, probes, "oriented")
        return "oriented"
    if name == "trace":
        return _trace(st, o, skm, probes)
    raise ValueError(name)


def _planar_faces(s):
    for key, inc in s.ftab.items():
        if len(key) < 4:
            continue
        P = s.facet_poly(key)
        n = np.cross(P[1] - P[0], P[3] - P[0])
        nn = np.linalg.norm(n)
        size = max(np.linalg.norm(P[2] - P[0]), 1e-300)
        if nn == 0 or abs(np.dot(P[2] - P[0], n / nn)) > 1e-9 * size:
            return False
    return True


def _call(fn, what, cls, **ctx):
    try:
        return fn()
    except Bad:
        raise
    except Exception as e:
        raise Bad("op-raised", call=what, mesh=cls,
                  exception="%s: %s" % (type(e).__name__, str(e)[:200]), **ctx)


def _expect_unsupported(fn, what, probes):
    try:
        fn()
    except NotImplementedError:
        _bump(probes, "unsupported-raises-NotImplementedError")
        return "unsupported"
    except Exception as e:
        raise Bad("op-raised", call=what,
                  exception="%s: %s" % (type(e).__name__, str(e)[:200]))
    _bump(probes, "unsupported-combination-returned-a-mesh")
    return "unsupported-returned"


def _same_geometry(a, b):
    if a.p_all.shape != b.p_all.shape or not (a.p_all == b.p_all).all() \
            or a.t.shape != b.t.shape or not (a.t == b.t).all():
        raise Bad("surgery-tagging-changed-geometry")


def _same_cells(a, b, tol=0.0):
    ka, kb = sorted(a.cell_keys()), sorted(b.cell_keys())
    if ka != kb:
        raise Bad("surgery-cells-changed", before=len(ka), after=len(kb))


# ----------------------------------------------------------------- refinement
def _check_refinement(st, ns, prop, probes, catcher, uniform_steps=None,
                      marked=None):
    s = st.s
    d = G.DIM[s.kind]
    if ns.cls != s.cls:
        raise Bad("valid-class-changed", before=s.cls, after=ns.cls)
    # children of a sliver are slivers: "degenerate" is judged against the
    # worst shape the parent mesh already had (repeated bisection within one
    # call can cost a factor of 2 per level)
    K.check_valid(ns, allow_unused=st.allow_unused,
                  deg_ratio=min(1e-12, 1e-4 * float(K.shape_ratio(s).min())))
    if uniform_steps is not None:
        want = s.nt * (2 ** (d * uniform_steps))
        if ns.nt != want:
            raise Bad("uniform-cell-count", expected=want, got=ns.nt)
    # old vertices keep index and position
    if ns.nv < s.nv:
        raise Bad("vertices-fewer-than-before")
    sc = K.scale_of(s.p)
    if np.abs(ns.p[:, :s.nv] - s.p[:, :s.nv]).max() > 1e-12 * sc:
        j = int(np.argmax(np.abs(ns.p[:, :s.nv] - s.p[:, :s.nv]).max(axis=0)))
        raise Bad("vertices-old-vertex-moved-or-renumbered", vertex=j)
    parent = K.parent_map(s, ns, probes)
    K.check_partition(s, ns, parent)
    K.check_boundary_preserved(s, ns)
    cellof = K.check_probe_points(ns, st.pts, st.inside, probes)
    tot = ns.total()
    if abs(tot - st.total) > K.MTOL * max(st.total, 1e-300):
        raise Bad("domain-total-measure-differs", model=st.total, mesh=tot)
    nchild = np.bincount(parent, minlength=s.nt)
    if marked is not None:
        for c in marked:
            if nchild[c] < 2:
                raise Bad("adaptive-marked-cell-not-subdivided", cell=int(c),
                          children=int(nchild[c]))
        if len(marked) == 0:
            _bump(probes, "adaptive-empty-marked-set")
        if (nchild[np.setdiff1d(np.arange(s.nt), marked)] > 1).any():
            _bump(probes, "adaptive-closure-refined-unmarked-cells")
    # ---- named subdomains: exactly the children of the old cells
    warned_b = any("boundaries invalidated" in r for r in catcher.records)
    warned_s = any("subdomains invalidated" in r for r in catcher.records)
    if s.sub is not None:
        for name in s.sub:
            old_idx = K.check_sub_indices(s, name)
            if ns.sub is None or name not in ns.sub:
                if prop == "C12" and uniform_steps is not None and warned_s:
                    _bump(probes, "subdomain-dropped-with-warning")
                    continue
                raise Bad("tags-subdomain-dropped" +
                          ("-without-warning" if not warned_s else ""),
                          name=name, mesh=s.cls,
                          how="uniform" if uniform_steps else "adaptive")
            new_idx = K.check_sub_indices(ns, name)
            inold = np.zeros(s.nt, dtype=bool)
            inold[old_idx] = True
            exp = np.nonzero(inold[parent])[0]
            if len(exp) != len(new_idx) or \
                    (np.sort(new_idx) != exp).any():
                wrong = np.setxor1d(exp, new_idx)
                raise Bad("tags-subdomain-not-children-of-old-cells",
                          name=name, mesh=s.cls,
                          how="uniform" if uniform_steps else "adaptive",
                          expected=len(exp), got=len(new_idx),
                          first_wrong_cell=int(wrong[0]) if len(wrong) else -1)
            _bump(probes, "subdomain-propagated-exactly")
    # ---- named boundaries
    if s.bnd is not None and (prop == "C12" or True):
        for name in s.bnd:
            present = ns.bnd is not None and name in ns.bnd
            if not present:
                if uniform_steps is not None and prop == "C12":
                    if s.cls in BOUNDARY_PROPAGATING:
                        raise Bad("tags-boundary-dropped-for-supported-type",
                                  name=name, mesh=s.cls)
                    if not warned_b:
                        raise Bad("tags-boundary-dropped-without-warning",
                                  name=name, mesh=s.cls)
                    _bump(probes, "boundary-dropped-with-warning")
                continue
            if uniform_steps is None:
                # C13 speaks about subdomains only (and C12/C18 are not about
                # adaptive refinement): a boundary that is kept by adaptive
                # refinement is not judged
                continue
            act = K.actual_boundary_keys(ns, name)
            exp = K.expected_boundary_after_refine(s, ns, name)
            if act != exp:
                raise Bad("tags-boundary-not-children-of-old-facets",
                          name=name, mesh=s.cls, expected=len(exp),
                          got=len(act),
                          example=list(sorted(act ^ exp)[0]))
            _bump(probes, "boundary-propagated-exactly")
    # ---- end-to-end model cross-check and bookkeeping
    if uniform_steps is None:
        # C13 speaks about subdomains only and neither C12 nor C18 is about
        # adaptive refinement: whatever boundaries an adaptive step keeps is
        # not judged, so the model stops tracking them
        st.bnd_meas, st.bnd_samples = {}, {}
        ns.bnd = None
        ns.bnd_ori = {}
    _drop_model_tags(st, ns)
    old = st.s
    st.s = ns
    try:
        _check_tags_against_model(st, probes, "refinement")
    finally:
        st.s = old


# ----------------------------------------------------------------- restrict
def _check_restrict(st, ns, keep, ix, probes):
    s = st.s
    K.check_valid(ns)      # restrict renumbers: no unused vertex afterwards
    if ns.cls != s.cls:
        raise Bad("valid-class-changed", before=s.cls, after=ns.cls)
    kept_keys = s.cell_keys(keep.tolist())
    new_keys = ns.cell_keys()
    if sorted(kept_keys) != sorted(new_keys):
        raise Bad("surgery-restrict-cells-differ", expected=len(kept_keys),
                  got=len(new_keys))
    if ix is not None:
        ix = np.asarray(ix)
        if ns.p.shape[1] != len(ix) or not (ns.p == s.p[:, ix]).all():
            raise Bad("indexmap-vertex-map-wrong")
        if ns.t.shape != s.t[:, keep].shape or \
                not (ix[ns.t] == s.t[:, keep]).all():
            raise Bad("indexmap-cell-map-wrong")
        _bump(probes, "index-map-checked")
    # tags: numbering-independent comparison
    if s.sub is not None:
        if ns.sub is None:
            raise Bad("tags-subdomains-lost-by-restrict")
        keepset = set(keep.tolist())
        for name in s.sub:
            if name not in ns.sub:
                raise Bad("tags-subdomain-lost-by-restrict", name=name)
            old_idx = [c for c in s.sub[name].tolist() if c in keepset]
            exp = sorted(s.cell_keys(old_idx))
            got = sorted(ns.cell_keys(K.check_sub_indices(ns, name).tolist()))
            if exp != got:
                raise Bad("tags-subdomain-designates-other-cells", name=name,
                          expected=len(exp), got=len(got), op="restrict")
            if len(old_idx) < len(s.sub[name]):
                _bump(probes, "tagged-cells-removed")
    if s.bnd is not None:
        if ns.bnd is None:
            raise Bad("tags-boundaries-lost-by-restrict")
        kept_facets = set()
        for key, inc in s.ftab.items():
            if any(c in set(keep.tolist()) for c, _ in inc):
                kept_facets.add(key)
        for name in s.bnd:
            if name not in ns.bnd:
                raise Bad("tags-boundary-lost-by-restrict", name=name)
            old_keys = K.actual_boundary_keys(s, name)
            exp = sorted(s.facet_key_coords(k) for k in old_keys
                         if k in kept_facets)
            got = sorted(ns.facet_key_coords(k)
                         for k in K.actual_boundary_keys(ns, name))
            if exp != got:
                raise Bad("tags-boundary-designates-other-facets", name=name,
                          expected=len(exp), got=len(got), op="restrict")
            if len(exp) < len(old_keys):
                _bump(probes, "tagged-facets-removed")
    # model
    loc = G.locate(st.pts, s.p, s.t[:, keep], s.kind, tol=1e-7)
    near = np.array([any(mg <= 1e-6 for _, mg in h) for h in loc])
    st.inside = np.array([len(h) > 0 for h in loc])
    st.pts, st.inside = st.pts[:, ~near], st.inside[~near]
    for name in list(st.labels):
        st.labels[name] = st.labels[name][~near] & st.inside
    st.total = float(s.meas[0][keep].sum())
    K.check_probe_points(ns, st.pts, st.inside, probes)
    if abs(ns.total() - st.total) > K.MTOL * max(st.total, 1e-300):
        raise Bad("domain-total-measure-differs", model=st.total,
                  mesh=ns.total())
    old = st.s
    st.s = ns
    try:
        _drop_model_tags(st, ns)
        for name in list(st.sub_meas):
            idxo = [c for c in s.sub[name].tolist() if c in set(keep.tolist())]
            st.sub_meas[name] = float(s.meas[0][idxo].sum()) if idxo else 0.0
        for name in list(st.bnd_meas):
            _record_boundary(st, name)
        _check_tags_against_model(st, probes, "restrict")
    finally:
        st.s = old


# ----------------------------------------------------------------- transform
def _check_transform(st, ns, f, det):
    s = st.s
    if ns.cls != s.cls:
        raise Bad("valid-class-changed", before=s.cls, after=ns.cls)
    if ns.t.shape != s.t.shape or not (ns.t == s.t).all():
        raise Bad("surgery-transform-changed-connectivity")
    exp = f(s.p_all)
    sc = max(K.scale_of(exp), 1e-300)
    if ns.p_all.shape != exp.shape or np.abs(ns.p_all - exp).max() > 1e-12 * sc:
        raise Bad("surgery-transform-coordinates-differ",
                  maxdiff=float(np.abs(ns.p_all - exp).max()))
    K.check_valid(ns, allow_unused=st.allow_unused)
    mo, mn = s.meas[0], ns.meas[0]
    if np.abs(mn - abs(det) * mo).max() > 1e-9 * max(mn.max(), 1e-300):
        raise Bad("surgery-transform-measure-differs")
    for tags_a, tags_b, what in ((s.sub, ns.sub, "subdomains"),
                                 (s.bnd and {k: v["idx"] for k, v in s.bnd.items()},
                                  ns.bnd and {k: v["idx"] for k, v in ns.bnd.items()},
                                  "boundaries")):
        if (tags_a is None) != (tags_b is None) or (
                tags_a is not None and (sorted(tags_a) != sorted(tags_b) or any(
                    len(tags_a[k]) != len(tags_b[k]) or
                    (np.asarray(tags_a[k]) != np.asarray(tags_b[k])).any()
                    for k in tags_a))):
            raise Bad("tags-%s-changed-by-transform" % what)
    for k in s.bnd_ori:
        if k not in ns.bnd_ori or (s.bnd_ori[k] != ns.bnd_ori[k]).any():
            raise Bad("tags-orientation-changed-by-transform", name=k)


# ----------------------------------------------------------------- join
def _join_partner(st, o, skm):
    s, m = st.s, st.m
    if s.order2:
        return None
    ax = o["axis"] % s.dim
    lo, hi = s.p[ax].min(), s.p[ax].max()
    cls = type(m)
    how = o["with"]
    if how == "shifted-copy":
        v = [0.0] * s.dim
        v[ax] = float(hi - lo)
        return m.translated(tuple(v))
    if how == "mirror":
        n = [0.0] * s.dim
        n[ax] = 1.0
        pt = [0.0] * s.dim
        pt[ax] = float(hi)
        return m.mirrored(tuple(n), tuple(pt))
    if how == "disjoint":
        v = [0.0] * s.dim
        v[ax] = float(hi - lo) * 1.5 + 0.25
        return m.translated(tuple(v))
    rec = meshes.random_recipe(random.Random(o["seed"]), [s.kind], max_n=2)
    other = meshes.build(rec)
    so = Snap(other)
    v = [0.0] * s.dim
    v[ax] = float(hi - so.p[ax].min()) + 0.5
    return other.translated(tuple(v))


def _check_join(st, so, ns, probes):
    s = st.s
    K.check_valid(ns, dup_tol=1e-9, allow_unused=st.allow_unused)
    if ns.cls != s.cls:
        raise Bad("valid-class-changed", before=s.cls, after=ns.cls)
    if ns.nt != s.nt + so.nt:
        raise Bad("surgery-join-cell-count", expected=s.nt + so.nt, got=ns.nt)

    # __add__ rounds coordinates to 8 decimals: compare with that tolerance
    why = K.match_cells(s.cell_arrays() + so.cell_arrays(), ns.cell_arrays(),
                        1e-7 * max(1.0, K.scale_of(ns.p)))
    if why is not None:
        raise Bad("surgery-join-cells-differ", why=why)
    # shared-vertex structure: coincident vertices are merged, others kept
    from scipy.spatial import cKDTree
    sc = K.scale_of(ns.p)
    allp = np.hstack((s.p, so.p))
    pairs = cKDTree(allp.T).query_pairs(1e-9 * sc)
    # number of distinct points = components of the coincidence graph
    import scipy.sparse as sp
    import scipy.sparse.csgraph as csg
    n = allp.shape[1]
    if pairs:
        ij = np.array(sorted(pairs))
        gph = sp.coo_matrix((np.ones(len(ij)), (ij[:, 0], ij[:, 1])),
                            shape=(n, n))
        ncomp = csg.connected_components(gph, directed=False)[0]
        _bump(probes, "join-merged-shared-vertices")
    else:
        ncomp = n
    if ns.p.shape[1] != ncomp:
        # Is the whole discrepancy explained by coincident vertices whose
        # coordinates straddle an 8-decimal rounding boundary (Mesh.__add__
        # merges by equality after round(8))?  That is known finding K4; any
        # other cause keeps the generic class.
        straddle = 0
        for i, j in sorted(pairs):
            if (np.round(allp[:, i], 8) != np.round(allp[:, j], 8)).any():
                straddle += 1
        if straddle and ns.p.shape[1] - ncomp <= straddle and \
                ns.p.shape[1] > ncomp:
            raise Bad("surgery-join-rounding-boundary-pair-not-merged",
                      expected=int(ncomp), got=int(ns.p.shape[1]),
                      straddling_pairs=int(straddle))
        raise Bad("surgery-join-vertex-count", expected=int(ncomp),
                  got=int(ns.p.shape[1]))
    tot = s.total() + so.total()
    if abs(ns.total() - tot) > 1e-7 * tot:
        raise Bad("domain-total-measure-differs", model=tot, mesh=ns.total())


def _join_mixed(st, o, skm, probes):
    """m @ other with another cell type in the same dimension."""
    s, m = st.s, st.m
    partner = {"tri": "quad", "quad": "tri", "tet": "hex", "hex": "tet"}.get(s.kind)
    if partner is None or s.order2:
        _bump(probes, "op-skipped-not-applicable")
        return "skipped"
    rec = meshes.random_recipe(random.Random(o["seed"]), [partner], max_n=2)
    other = meshes.build(rec)
    so0 = Snap(other)
    v = [0.0] * s.dim
    v[0] = float(s.p[0].max() - so0.p[0].min())
    other = other.translated(tuple(v))
    so = Snap(other)
    out = _call(lambda: m @ other, "__matmul__", s.cls)
    if not isinstance(out, list) or len(out) != 2:
        raise Bad("surgery-matmul-shape", got=repr(type(out)))
    a, b = Snap(out[0]), Snap(out[1])
    if a.cls != s.cls or b.cls != so.cls:
        raise Bad("valid-class-changed", before=[s.cls, so.cls],
                  after=[a.cls, b.cls])
    if a.p_all.shape != b.p_all.shape or not (a.p_all == b.p_all).all():
        raise Bad("surgery-matmul-point-arrays-differ")
    for x in (a, b):
        K.check_valid(x, allow_unused=True)
    _same_cells(s, a)
    _same_cells(so, b)
    _bump(probes, "join-mixed-types")
    if o.get("continue_with_part"):
        # go on with the first part: same cells, but its point array now
        # also holds the partner's vertices, which no cell of it uses
        st.m, st.s = out[0], a
        st.allow_unused = True
        st.labels, st.sub_meas, st.bnd_meas, st.bnd_samples = {}, {}, {}, {}
        _bump(probes, "continued-with-part-carrying-unused-vertices")
    return "join_mixed"


def _dirty_unused(st, o, probes):
    """Replace the current mesh by an equal one whose point array also holds
    vertices that no cell uses (as the parts returned by `@` do), some of
    them behind the last used vertex."""
    s, m = st.s, st.m
    if s.order2:
        _bump(probes, "op-skipped-not-applicable")
        return "skipped"
    g = np.random.Generator(np.random.PCG64(o["seed"]))
    nv = s.p_all.shape[1]
    extra = int(o["extra"])
    pos = np.sort(g.integers(0, nv + 1, size=extra))
    if o.get("trailing"):
        pos[-1] = nv
    newid = np.arange(nv) + np.searchsorted(pos, np.arange(nv), side="right")
    P = np.zeros((s.dim, nv + extra))
    P[:, newid] = s.p_all
    rest = np.setdiff1d(np.arange(nv + extra), newid)
    # far from the mesh, in units of the mesh (it may be of any size)
    span = K.scale_of(s.p)
    P[:, rest] = s.p.min(axis=1)[:, None] + \
        span * g.uniform(7, 8, size=(s.dim, extra))
    r = type(m)(P, newid[np.array(m.t)].astype(np.int32))
    ns = Snap(r)
    K.check_valid(ns, allow_unused=True)
    _same_cells(s, ns)
    st.m, st.s = r, ns
    st.allow_unused = True
    st.labels, st.sub_meas, st.bnd_meas, st.bnd_samples = {}, {}, {}, {}
    _bump(probes, "mesh-with-unused-vertices")
    return "dirty_unused"


# ----------------------------------------------------------------- split
def _check_split(st, ns, per, probes):
    s = st.s
    K.check_valid(ns, allow_unused=st.allow_unused)
    if ns.nt != per * s.nt:
        raise Bad("surgery-split-cell-count", expected=per * s.nt, got=ns.nt)
    parent = K.parent_map(s, ns, probes)
    K.check_partition(s, ns, parent)
    K.check_boundary_preserved(s, ns)
    K.check_probe_points(ns, st.pts, st.inside, probes)
    if s.sub is not None and ns.sub is not None:
        for name in s.sub:
            if name not in ns.sub:
                continue
            inold = np.zeros(s.nt, dtype=bool)
            inold[K.check_sub_indices(s, name)] = True
            exp = np.nonzero(inold[parent])[0]
            got = np.sort(K.check_sub_indices(ns, name))
            if len(exp) != len(got) or (exp != got).any():
                raise Bad("tags-subdomain-designates-other-cells", name=name,
                          op="split", expected=len(exp), got=len(got))
            _bump(probes, "subdomain-carried-through-split")
    if s.bnd is not None and ns.bnd is not None:
        for name in s.bnd:
            if name not in ns.bnd:
                continue
            exp = sorted(s.facet_key_coords(k)
                         for k in K.actual_boundary_keys(s, name))
            got = sorted(ns.facet_key_coords(k)
                         for k in K.actual_boundary_keys(ns, name))
            if exp != got:
                raise Bad("tags-boundary-designates-other-facets", name=name,
                          op="split", expected=len(exp), got=len(got))
            _bump(probes, "boundary-carried-through-split")
    old = st.s
    st.s = ns
    try:
        _drop_model_tags(st, ns)
        _check_tags_against_model(st, probes, "split")
    finally:
        st.s = old
    return parent


# ----------------------------------------------------------------- extrude
def _check_extrude(st, ns, z, probes):
    s = st.s
    want = {"line": "MeshQuad1", "tri": "MeshWedge1"}[s.kind]
    if ns.cls != want:
        raise Bad("valid-class-changed", before=s.cls, after=ns.cls)
    K.check_valid(ns, allow_unused=st.allow_unused)
    nl = len(z) - 1
    if ns.nt != s.nt * nl:
        raise Bad("surgery-extrude-cell-count", expected=s.nt * nl, got=ns.nt)
    tot = s.total() * (z[-1] - z[0])
    if abs(ns.total() - tot) > K.MTOL * tot:
        raise Bad("domain-total-measure-differs", model=tot, mesh=ns.total())
    exp = sorted((tuple(q) + (float(zz),)) for q in s.p.T.tolist() for zz in z)
    got = sorted(map(tuple, ns.p.T.tolist()))
    if len(exp) != len(got) or np.abs(np.array(exp) - np.array(got)).max() > 1e-12:
        raise Bad("surgery-extrude-vertices-differ")


# ----------------------------------------------------------------- clean-up
def _clean(st, o, skm, probes):
    s, m = st.s, st.m
    g = np.random.Generator(np.random.PCG64(o["seed"]))
    cls = type(m)
    kw = dict(_boundaries=m._boundaries, _subdomains=m._subdomains)
    if o["op"] == "clean_unused":
        # insert unused vertices at seeded positions of the numbering
        nv = s.p.shape[1]
        extra = int(o["extra"])
        pos = np.sort(g.integers(0, nv + 1, size=extra))
        newid = np.arange(nv) + np.searchsorted(pos, np.arange(nv), side="right")
        P = np.zeros((s.dim, nv + extra))
        P[:, newid] = s.p
        rest = np.setdiff1d(np.arange(nv + extra), newid)
        P[:, rest] = g.uniform(5, 6, size=(s.dim, extra))
        dirty = cls(P, newid[s.t].astype(np.int32))
        r = _call(lambda: dirty.remove_unused_nodes(), "remove_unused_nodes",
                  s.cls)
        ns = Snap(r)
        K.check_valid(ns)
        _same_cells(s, ns)
        _bump(probes, "clean-unused")
        st.allow_unused = False
        st.m, st.s = r, ns
        st.labels, st.sub_meas, st.bnd_meas, st.bnd_samples = {}, {}, {}, {}
        return "clean_unused"
    # duplicates: split some vertices between the cells that share them
    t = s.t.copy()
    P = s.p.copy()
    nv = P.shape[1]
    extra = 0
    for _ in range(int(o["extra"])):
        v = int(g.integers(0, nv))
        where = np.argwhere(t == v)
        if len(where) < 2:
            continue
        take = where[int(g.integers(1, len(where))):]
        P = np.hstack((P, P[:, v:v + 1]))
        for a, c in take:
            t[a, c] = P.shape[1] - 1
        extra += 1
    if extra == 0:
        _bump(probes, "op-skipped-not-applicable")
        return "skipped"
    dirty = cls(P, t.astype(np.int32))
    dirty = dirty.with_subdomains({"keep": np.arange(0, s.nt, 2, dtype=np.int32)})
    sd = Snap(dirty)
    fac_keys = sorted(sd.ftab)
    sel = [fac_keys[i] for i in _subset(len(fac_keys), 0.4, o["seed"])]
    fac = np.array(dirty.facets)
    lookup = {tuple(sorted(set(fac[:, j].tolist()))): j
              for j in range(fac.shape[1])}
    idx = np.array(sorted(lookup[k] for k in sel if k in lookup), dtype=np.int32)
    dirty = dirty.with_boundaries({"fb": idx})
    sd = Snap(dirty)
    r = _call(lambda: dirty.remove_duplicate_nodes(), "remove_duplicate_nodes",
              s.cls)
    ns = Snap(r)
    K.check_valid(ns, allow_unused=st.allow_unused)
    _same_cells(s, ns)
    # carried tags designate the same geometric entities
    if ns.sub is not None and "keep" in ns.sub:
        exp = sorted(sd.cell_keys(sd.sub["keep"].tolist()))
        got = sorted(ns.cell_keys(K.check_sub_indices(ns, "keep").tolist()))
        if exp != got:
            raise Bad("tags-subdomain-designates-other-cells", name="keep",
                      op="remove_duplicate_nodes")
    if ns.bnd is not None and "fb" in ns.bnd:
        exp = sorted(set(sd.facet_key_coords(k)
                         for k in K.actual_boundary_keys(sd, "fb")))
        got = sorted(ns.facet_key_coords(k)
                     for k in K.actual_boundary_keys(ns, "fb"))
        if exp != got:
            raise Bad("tags-boundary-designates-other-facets", name="fb",
                      op="remove_duplicate_nodes", expected=len(exp),
                      got=len(got))
    _bump(probes, "clean-duplicate")
    st.m, st.s = r, ns
    st.labels, st.sub_meas, st.bnd_meas, st.bnd_samples = {}, {}, {}, {}
    return "clean_duplicate"


def _trace(st, o, skm, probes):
    s, m = st.s, st.m
    if s.kind not in ("tri", "quad", "tet") or s.order2:
        _bump(probes, "op-skipped-not-applicable")
        return "skipped"
    bkeys = sorted(s.boundary_keys())
    sel = [bkeys[i] for i in _subset(len(bkeys), o["frac"], o["seed"])]
    fac = np.array(m.facets)
    lookup = {tuple(sorted(set(fac[:, j].tolist()))): j
              for j in range(fac.shape[1])}
    idx = np.array(sorted(lookup[k] for k in sel), dtype=np.int32)
    mtype = {"tri": skm.MeshLine1, "quad": skm.MeshLine1,
             "tet": skm.MeshTri1}[s.kind]
    r, facets = _call(lambda: m.trace(idx, mtype=mtype), "trace", s.cls)
    if not (np.asarray(facets) == idx).all():
        raise Bad("indexmap-trace-facets-differ")
    tp, tt = np.array(r.p), np.array(r.t)
    exp = sorted(s.facet_key_coords(k) for k in sel)
    got = sorted(tuple(sorted(map(tuple, tp[:, tt[:, c]].T.tolist())))
                 for c in range(tt.shape[1]))
    if exp != got:
        raise Bad("surgery-trace-cells-differ", expected=len(exp), got=len(got))
    _bump(probes, "trace")
    return "trace"


# ----------------------------------------------------------------- execute
def execute(trace):
    prop = trace["prop"]
    stats = {"steps": 0, "faults": {}, "probes": {}, "swarm": {}}
    probes = stats["probes"]
    log = []
    violation = None
    lg = logging.getLogger("skfem")
    lg.setLevel(logging.WARNING)
    import warnings
    with warnings.catch_warnings():
        warnings.simplefilter("ignore")
        m0 = meshes.build(trace["recipe"])
        st = State(m0, trace["probe_seed"])
        try:
            K.check_valid(st.s)
        except Bad as b:
            return {"harness_error": "generator produced an invalid mesh: %s %r"
                    % (b.cls, b.detail)}
        states = set()
        for k, o in enumerate(trace["ops"]):
            cls_before = st.s.cls
            try:
                tag = step(st, o, prop, probes, stats["faults"])
            except Bad as b:
                if o["op"] not in JUDGED[prop]:
                    # a context operation failed *its own* property's check;
                    # that is the other property's finding, not this one's:
                    # the history ends here without a verdict
                    _bump(probes, "context-op-failed-its-own-check:" + o["op"])
                    log.append((k, o["op"], "context-failed"))
                    break
                violation = {
                    "class": b.cls, "at": k,
                    "signature": "%s/%s/%s" % (b.cls, o["op"], cls_before),
                    "detail": dict(b.detail, op=o, mesh=cls_before,
                                   cells=int(st.s.nt))}
                break
            stats["steps"] += 1
            log.append((k, o["op"], tag, digest.arr(st.s.p_all),
                        digest.arr(st.s.t)))
            states.add(digest.hbytes(digest.arr(np.round(st.s.p_all, 9)),
                                     digest.arr(st.s.t)))
    names = [o["op"] for o in trace["ops"]]
    stats["swarm"] = {"family": trace["recipe"]["family"],
                      "order": trace["recipe"].get("order", 1),
                      "nops": len(names)}
    for a, b in zip(names, names[1:]):
        _bump(probes, "bigram:%s>%s" % (a, b))
    hist = digest.jdigest([trace["recipe"], trace["ops"]])
    keys = {"histories": [hist], "states": sorted(states)}
    if len(trace["ops"]) >= 2 or any(n.startswith("tag") for n in names):
        keys["nontrivial"] = [hist]
    return {"trace": trace, "violation": violation, "stats": stats,
            "log_digest": digest.jdigest(log), "keys": keys}


# ----------------------------------------------------------------- engine API
def plan(prop, tier):
    if tier == "thorough":
        return {"runs": 60000, "budget_s": 900, "timeout_s": 300,
                "selfcheck_runs": 12}
    return {"runs": {"C12": 1800, "C13": 3150, "C18": 2700}[prop],
            "budget_s": 75, "timeout_s": 180,
            "selfcheck_runs": 6}


SCALE_AT = 5          # run index of the scale probe in each block
SCALE_EVERY = {"quick": 225, "thorough": 225}


def run(prop, rseed, tier, k):
    rng = prng.pyrng(rseed)
    if k % SCALE_EVERY.get(tier, 10 ** 9) == SCALE_AT:
        from . import scale
        return scale.execute(scale.generate(
            prop, rng, k // SCALE_EVERY.get(tier, 10 ** 9)))
    return execute(generate(prop, rng, tier))


def replay(trace):
    if trace.get("scale"):
        from . import scale
        return scale.execute(trace)
    return execute(trace)


def trace_len(trace):
    return len(trace["ops"])


def shrink(trace, violation, exec_iso):
    sig = violation["signature"]
    if trace.get("scale"):
        return trace          # 2-4 operations: nothing to minimise

    def ok(tr):
        out = exec_iso(tr)
        return ("harness_error" not in out and out.get("violation") is not None
                and out["violation"]["signature"] == sig)

    base = dict(trace)
    ops = trace["ops"][:violation["at"] + 1]
    if not ok(dict(base, ops=ops)):
        ops = trace["ops"]
    small, _ = ddmin(ops, lambda sub: ok(dict(base, ops=sub)), budget=200)
    cur = dict(base, ops=small)
    # simpler initial mesh
    rec = cur["recipe"]
    for cand in (dict(rec, perm=False), dict(rec, jiggle=0.0),
                 dict(rec, n=1), dict(rec, n=2), dict(rec, order=1)):
        merged = dict(cur["recipe"], **{k: cand[k] for k in cand
                                        if cand[k] != rec.get(k)})
        if merged != cur["recipe"] and ok(dict(cur, recipe=merged)):
            cur = dict(cur, recipe=merged)
    # simpler op parameters
    for i, o in enumerate(cur["ops"]):
        for key, val in (("k", 1), ("frac", 0.1), ("mark", "single"),
                         ("oriented", False), ("dtype", "int32")):
            if key in o and o[key] != val:
                trial = [dict(x) for x in cur["ops"]]
                trial[i][key] = val
                if ok(dict(cur, ops=trial)):
                    cur = dict(cur, ops=trial)
    return cur


def describe(prop):
    what = {"C12": "uniform refinement", "C13": "adaptive refinement",
            "C18": "a mesh-surgery operation"}[prop]
    return {
        "technique": "deterministic simulation, history facet only (no "
                     "scheduler, no fault injector): seeded mesh-operation "
                     "histories checked step by step against an independent "
                     "geometric reference model",
        "rule": "one evaluation = one seeded history (initial mesh recipe + "
                "2..9 operations, always containing %s) executed through the "
                "public API and checked after every step with own geometry; "
                "distinct_nontrivial counts distinct histories (hash of "
                "recipe + op list) of length >= 2 or carrying a tag" % what,
        "simulated_time": "logical steps (operations) only; no timers, no "
                          "scheduler in the system under test",
        "faults_not_applicable": [
            "all fault kinds: the code under this property has no schedule, "
            "clock, I/O or peer for a fault to act on; this check is the "
            "fault-free, single-actor history search of the technique"],
        "components": {
            "real": ["skfem.mesh.* through the public API"],
            "stubbed": ["nothing; the oracle (simfem.geom, simfem.lineage."
                        "checks) never calls skfem connectivity, mappings or "
                        "finders; it reads p, t, tag index arrays and the "
                        "columns of mesh.facets they designate"]},
        "assumptions": [
            "tolerances: coordinates 1e-12 relative, measures 1e-9 relative, "
            "point-on-facet 1e-9 of the domain size; probe points within "
            "1e-7 (reference units) of a facet are skipped and counted, "
            "never guessed",
            "'inverted' means folded (Jacobian determinant changes sign "
            "inside a cell), not negatively oriented",
            "initial meshes come from simfem.gen.meshes (own connectivity, "
            "public constructors)"],
    }
