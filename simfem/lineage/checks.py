"""Invariants of the lineage engine, computed with simfem.geom only.

Every function takes plain arrays read from scikit-fem mesh objects (p, t,
tag index arrays and the columns of ``facets`` they designate) and returns
``None`` or a (violation-class, detail) pair.
"""
import numpy as np

from ..geom import cells as G

TOL = 1e-9
# point-on-facet tolerance, relative to the size of the domain.  Mesh.__add__
# rounds coordinates to 8 decimals, so anything tighter than that would flag
# its (documented) rounding; hanging nodes are off by O(h).
FTOL = 1e-7
# relative tolerance on measures (same reason)
MTOL = 1e-7


class Bad(Exception):
    def __init__(self, cls, **detail):
        super().__init__(cls)
        self.cls = cls
        self.detail = detail


def scale_of(p):
    p = np.asarray(p)
    if p.size == 0:
        return 1.0
    return float(max(1e-300, (p.max(axis=1) - p.min(axis=1)).max()))


# ----------------------------------------------------------------- snapshots
class Snap:
    """Plain-array snapshot of a mesh object (what the oracle looks at)."""

    def __init__(self, m):
        self.kind = G.kind_of(m)
        self.cls = type(m).__name__
        self.order2 = self.cls.endswith("2")
        self.p_all = np.array(m.p, dtype=float, copy=True)
        self.t = np.array(m.t, dtype=np.int64, copy=True)[:G.NV[self.kind]]
        self.nv = int(self.t.max()) + 1 if self.t.size else 0
        # vertex coordinates: for second-order classes the first nv columns
        self.p = self.p_all[:, :max(self.nv, 0)] if self.order2 else self.p_all
        self.nt = self.t.shape[1]
        self.dim = self.p_all.shape[0]
        self.sub = None
        self.bnd = None
        self.bnd_ori = {}
        self.bad_dtype = None
        for what, tags in (("subdomain", m.subdomains),
                           ("boundary", m.boundaries)):
            for k, v in (tags or {}).items():
                if not np.issubdtype(np.asarray(v).dtype, np.integer):
                    self.bad_dtype = (what, k, str(np.asarray(v).dtype))
        if m.subdomains is not None:
            self.sub = {k: np.array(v, dtype=np.int64).ravel()
                        for k, v in m.subdomains.items()}
        if m.boundaries is not None:
            self.bnd = {}
            fac = np.array(m.facets, dtype=np.int64)
            self.nfacets = fac.shape[1]
            for k, v in m.boundaries.items():
                idx = np.array(v, dtype=np.int64).ravel()
                self.bnd[k] = {"idx": idx,
                               "verts": None if fac is None or
                               (len(idx) and (idx.max() >= fac.shape[1]
                                              or idx.min() < 0))
                               else (fac[:, idx] if len(idx) else
                                     np.zeros((fac.shape[0], 0), dtype=int))}
                ori = getattr(v, "ori", None)
                if ori is not None:
                    self.bnd_ori[k] = np.array(ori, dtype=int)
        self._ft = None
        self._meas = None

    @property
    def ftab(self):
        if self._ft is None:
            self._ft = G.facet_table(self.t, self.kind)
        return self._ft

    @property
    def meas(self):
        if self._meas is None:
            self._meas = G.measures(self.p, self.t, self.kind)
        return self._meas

    def total(self):
        return float(self.meas[0].sum())

    def boundary_keys(self):
        return [k for k, inc in self.ftab.items() if len(inc) == 1]

    def facet_coords(self, key_or_cellslot):
        return self.p[:, list(key_or_cellslot)].T

    def facet_poly(self, key):
        c, slot = self.ftab[key][0]
        ids = G.facet_vertices_ordered(self.t, self.kind, c, slot)
        return self.p[:, ids].T

    def boundary_measure(self):
        return float(sum(G.poly_measure(self.facet_poly(k))
                         for k in self.boundary_keys()))

    def cell_keys(self, idx=None):
        """Numbering-independent key per cell: sorted vertex coordinates."""
        cols = range(self.nt) if idx is None else idx
        out = []
        for c in cols:
            pts = sorted(map(tuple, self.p[:, self.t[:, c]].T.tolist()))
            out.append(tuple(pts))
        return out

    def cell_arrays(self, idx=None):
        cols = range(self.nt) if idx is None else idx
        return [self.p[:, self.t[:, c]].T for c in cols]

    def facet_key_coords(self, vert_ids):
        return tuple(sorted(map(tuple, self.p[:, list(vert_ids)].T.tolist())))


def match_cells(exp_cells, got_cells, tol):
    """Numbering-independent comparison of two lists of cells given as
    (nv, dim) vertex-coordinate arrays: same multiset up to ``tol``.
    Returns None or a short reason."""
    from scipy.spatial import cKDTree
    if len(exp_cells) != len(got_cells):
        return "count %d != %d" % (len(exp_cells), len(got_cells))
    if not exp_cells:
        return None
    ce = np.array([c.mean(axis=0) for c in exp_cells])
    cg = np.array([c.mean(axis=0) for c in got_cells])
    tree = cKDTree(ce)
    used = np.zeros(len(exp_cells), dtype=bool)
    for i, x in enumerate(cg):
        cand = tree.query_ball_point(x, tol)
        hit = None
        for j in cand:
            if used[j]:
                continue
            E, Gt = exp_cells[j], got_cells[i]
            dd = np.linalg.norm(E[:, None, :] - Gt[None, :, :], axis=2)
            if (dd.min(axis=1) <= tol).all() and (dd.min(axis=0) <= tol).all():
                hit = j
                break
        if hit is None:
            return "cell %d of the result matches no expected cell" % i
        used[hit] = True
    return None


# ----------------------------------------------------------------- validity
def shape_ratio(s):
    """measure / diameter^dim per cell (1/d! for the reference simplex,
    tiny for slivers)."""
    meas, _ = s.meas
    h = G.diameters(s.p, s.t, s.kind)
    return meas / np.maximum(h, 1e-300) ** G.DIM[s.kind]


def check_valid(s, allow_unused=False, dup_tol=None, deg_ratio=1e-12):
    if s.bad_dtype is not None:
        raise Bad("tags-index-array-not-integer", what=s.bad_dtype[0],
                  name=s.bad_dtype[1], dtype=s.bad_dtype[2])
    if s.p_all.shape[0] != G.DIM[s.kind]:
        raise Bad("valid-shape", what="p has %d rows" % s.p_all.shape[0])
    if s.nt == 0:
        raise Bad("valid-empty", what="no cells")
    if s.t.min() < 0 or s.t.max() >= s.p_all.shape[1]:
        raise Bad("valid-index-range", tmax=int(s.t.max()),
                  npoints=int(s.p_all.shape[1]))
    if not np.isfinite(s.p_all).all():
        raise Bad("valid-nonfinite-coordinates")
    used = np.unique(s.t)
    if not allow_unused and not s.order2 and len(used) != s.p_all.shape[1]:
        raise Bad("valid-unused-vertex",
                  unused=int(s.p_all.shape[1] - len(used)))
    if s.order2 and len(used) != s.nv:
        raise Bad("valid-unused-vertex", unused=int(s.nv - len(used)))
    if s.order2:
        # a second-order mesh carries one node per vertex and edge (plus one
        # per face / cell for the tensor-product classes)
        ne = G.count_edges(s.t, s.kind)
        want = {"tri": s.nv + ne, "tet": s.nv + ne,
                "quad": s.nv + ne + s.nt,
                "hex": s.nv + ne + len(s.ftab) + s.nt}[s.kind]
        if s.p_all.shape[1] != want:
            raise Bad("valid-second-order-node-count", expected=int(want),
                      got=int(s.p_all.shape[1]))
    h = G.diameters(s.p, s.t, s.kind)
    sc = scale_of(s.p)
    tol = (dup_tol if dup_tol is not None else 1e-10) * sc
    dups = G.duplicate_vertices(s.p[:, used], tol)
    if dups:
        a, b = dups[0]
        raise Bad("valid-duplicate-vertices", count=len(dups),
                  example=[int(used[a]), int(used[b])])
    meas, folded = s.meas
    d = G.DIM[s.kind]
    deg = meas < deg_ratio * np.maximum(h, 1e-300) ** d
    if deg.any():
        raise Bad("valid-degenerate-cell", cells=np.nonzero(deg)[0][:5].tolist())
    if folded.any():
        raise Bad("valid-inverted-cell", cells=np.nonzero(folded)[0][:5].tolist())
    for c in range(s.nt):
        if len(set(s.t[:, c].tolist())) != s.t.shape[0]:
            raise Bad("valid-repeated-vertex-in-cell", cell=c)
    seen = {}
    for c in range(s.nt):
        key = tuple(sorted(s.t[:, c].tolist()))
        if key in seen:
            raise Bad("valid-duplicate-cell", cells=[seen[key], c])
        seen[key] = c
    for key, inc in s.ftab.items():
        if len(inc) > 2:
            raise Bad("conforming-facet-with->2-cells", facet=list(key),
                      cells=[c for c, _ in inc])


# ----------------------------------------------------------------- nesting
def _outside_distance(kind, V, pts):
    """Largest distance from the points (dim, n) to the simplex cell with
    vertices V (nv, dim), 0 for points inside."""
    X, _ = G.ref_coords(kind, np.repeat(V[:, :, None], pts.shape[1], axis=2),
                        pts)
    marg = G.inside_margin(kind, X)
    worst = 0.0
    nv = V.shape[0]
    for j in np.nonzero(marg < 0)[0]:
        if nv == 2:
            faces = [[0], [1]]
        else:
            faces = [[k for k in range(nv) if k != drop] for drop in range(nv)]
        worst = max(worst, min(G.dist_point_simplex(pts[:, j], V[f])
                               for f in faces))
    return worst


def parent_map(old, new, probes):
    """Parent (old cell) of every new cell, from own point location of the
    child's centroid; all child vertices must lie in the parent."""
    cen = G.centroids(new.p, new.t, new.kind)
    if new.kind != old.kind:
        loc = G.locate(cen, old.p, old.t, old.kind, tol=-1e-7)
    else:
        loc = G.locate(cen, old.p, old.t, old.kind, tol=-1e-7)
    parent = -np.ones(new.nt, dtype=np.int64)
    Vold = G.verts(old.p, old.t, old.kind)
    for c, hits in enumerate(loc):
        if len(hits) == 1:
            parent[c] = hits[0][0]
        elif len(hits) == 0:
            # centroid within 1e-7 (reference units) of an old facet, or
            # outside the old mesh: try every near candidate by vertices
            near = G.locate(cen[:, c:c + 1], old.p, old.t, old.kind,
                            tol=1e-6)[0]
            good = [pc for pc, _ in near if G.contains_all(
                old.kind, Vold[:, :, pc], new.p[:, new.t[:, c]]) >= -TOL]
            if len(good) >= 1:
                parent[c] = good[0]
                probes["ambiguous-child-centroid"] = \
                    probes.get("ambiguous-child-centroid", 0) + 1
            else:
                raise Bad("nested-child-in-no-old-cell", child=c,
                          centroid=cen[:, c].tolist())
        else:
            raise Bad("nested-old-cells-overlap", child=c,
                      parents=[h[0] for h in hits])
    # all vertices of each child inside its parent
    for pc in np.unique(parent):
        ch = np.nonzero(parent == pc)[0]
        vids = np.unique(new.t[:, ch])
        mg = G.contains_all(old.kind, Vold[:, :, pc], new.p[:, vids])
        if mg < -TOL:
            # name the child
            for c in ch:
                if G.contains_all(old.kind, Vold[:, :, pc],
                                  new.p[:, new.t[:, c]]) < -TOL:
                    # reference coordinates of a sliver are ill-conditioned
                    # (a margin of -1e-8 on a cell 1e-5 thick is a distance
                    # of 1e-13): what counts is the physical distance
                    if old.kind in G.SIMPLEX and _outside_distance(
                            old.kind, Vold[:, :, pc],
                            new.p[:, new.t[:, c]]) <= 1e-10 * scale_of(old.p):
                        probes["nested-accepted-by-physical-distance"] = \
                            probes.get("nested-accepted-by-physical-"
                                       "distance", 0) + 1
                        continue
                    raise Bad("nested-child-leaves-parent", child=int(c),
                              parent=int(pc), margin=mg)
    return parent


def check_partition(old, new, parent):
    """Children tile their parents: measures add up, every old cell has a
    child, total conserved."""
    mo = old.meas[0]
    mn = new.meas[0]
    s = np.bincount(parent, weights=mn, minlength=old.nt)
    bad = np.abs(s - mo) > MTOL * np.maximum(mo, 1e-300)
    if bad.any():
        c = int(np.nonzero(bad)[0][0])
        raise Bad("domain-children-measure-differs", parent=c,
                  parent_measure=float(mo[c]), children_sum=float(s[c]))


def check_boundary_preserved(old, new):
    """Single-neighbour facets of the new mesh lie on single-neighbour
    facets of the old one (a hanging node manufactures single-neighbour
    facets in the interior) and the boundary measure is conserved."""
    ob = old.boundary_keys()
    nb = new.boundary_keys()
    opolys = [old.facet_poly(k) for k in ob]
    ocen = np.array([P.mean(axis=0) for P in opolys]) if opolys else \
        np.zeros((0, old.dim))
    orad = np.array([np.linalg.norm(P - P.mean(axis=0), axis=1).max()
                     for P in opolys]) if opolys else np.zeros(0)
    sc = scale_of(old.p)
    for k in nb:
        P = new.facet_poly(k)
        x = P.mean(axis=0)
        if len(opolys) == 0:
            raise Bad("conforming-new-boundary-facet-in-interior", facet=list(k))
        d = np.linalg.norm(ocen - x, axis=1) - orad
        cand = np.nonzero(d <= FTOL * sc)[0]
        ok = False
        for j in cand:
            if G.dist_point_facet(x, opolys[j]) <= FTOL * sc and all(
                    G.dist_point_facet(v, opolys[j]) <= FTOL * sc for v in P):
                ok = True
                break
        if not ok:
            raise Bad("conforming-hanging-node-or-hole", facet=list(k),
                      centroid=x.tolist())
    mo_, mn_ = old.boundary_measure(), new.boundary_measure()
    if abs(mo_ - mn_) > MTOL * max(mo_, 1e-300):
        raise Bad("domain-boundary-measure-differs", old=mo_, new=mn_)


def check_probe_points(new, pts, inside, probes, what="domain"):
    """Every inside probe point is in some cell (exactly one unless on a
    facet), every outside point in none.  Ambiguous points are skipped."""
    if pts.shape[1] == 0:
        return None
    loc = G.locate(pts, new.p, new.t, new.kind, tol=1e-7)
    cellof = -np.ones(pts.shape[1], dtype=np.int64)
    for i, hits in enumerate(loc):
        strict = [h for h in hits if h[1] > 1e-7]
        if len(hits) != len(strict) or len(hits) > 1:
            probes["ambiguous_points_skipped"] = \
                probes.get("ambiguous_points_skipped", 0) + 1
            cellof[i] = -2
            continue
        if inside[i] and not hits:
            raise Bad("%s-inside-point-not-covered" % what,
                      point=pts[:, i].tolist())
        if not inside[i] and hits:
            raise Bad("%s-outside-point-covered" % what,
                      point=pts[:, i].tolist(), cell=hits[0][0])
        if hits:
            cellof[i] = hits[0][0]
    return cellof


# ----------------------------------------------------------------- tags
def expected_boundary_after_refine(old, new, name):
    """New facets lying on the old facets named ``name`` (own geometry)."""
    ov = old.bnd[name]["verts"]
    if ov is None:
        raise Bad("tags-old-boundary-index-out-of-range", name=name)
    sc = scale_of(old.p)
    opolys = []
    for j in range(ov.shape[1]):
        key = tuple(sorted(set(ov[:, j].tolist())))
        if key not in old.ftab:
            raise Bad("tags-named-facet-not-a-facet", name=name, facet=list(key))
        opolys.append(old.facet_poly(key))
    if not opolys:
        return set()
    ocen = np.array([P.mean(axis=0) for P in opolys])
    orad = np.array([np.linalg.norm(P - P.mean(axis=0), axis=1).max()
                     for P in opolys])
    exp = set()
    for k in new.ftab:
        P = new.p[:, list(k)].T
        x = P.mean(axis=0)
        d = np.linalg.norm(ocen - x, axis=1) - orad
        for j in np.nonzero(d <= FTOL * sc)[0]:
            if all(G.dist_point_facet(v, opolys[j]) <= FTOL * sc for v in P) \
                    and G.dist_point_facet(x, opolys[j]) <= FTOL * sc:
                exp.add(k)
                break
    return exp


def actual_boundary_keys(s, name):
    v = s.bnd[name]["verts"]
    if v is None:
        idx = s.bnd[name]["idx"]
        raise Bad("tags-boundary-index-out-of-range", name=name,
                  nfacets=s.nfacets, max=int(idx.max()) if len(idx) else -1)
    keys = [tuple(sorted(set(v[:, j].tolist()))) for j in range(v.shape[1])]
    for k in keys:
        if k not in s.ftab:
            raise Bad("tags-named-facet-not-a-facet", name=name, facet=list(k))
    if len(set(keys)) != len(keys):
        raise Bad("tags-boundary-lists-facet-twice", name=name)
    return set(keys)


def check_sub_indices(s, name):
    idx = s.sub[name]
    if len(idx) and (idx.min() < 0 or idx.max() >= s.nt):
        raise Bad("tags-subdomain-index-out-of-range", name=name,
                  max=int(idx.max()), ncells=s.nt)
    if len(np.unique(idx)) != len(idx):
        raise Bad("tags-subdomain-lists-cell-twice", name=name)
    return idx
