"""Element / integrand / function registries for histsim."""
import numpy as np

# cell -> name -> (expression in skfem namespace, kind, weight)
# kind: scalar | vector | hdiv | hcurl | global | matrix
# '*' in the DESIGN table = carries instance-level cache state (over-sampled)
ELEMS = {
    "line": {
        "P0": ("ElementLineP0()", "scalar", 1), "P1": ("ElementLineP1()", "scalar", 2),
        "P2": ("ElementLineP2()", "scalar", 2), "Mini": ("ElementLineMini()", "scalar", 1),
        "P1DG": ("ElementLineP1DG()", "scalar", 1),
        "Pp2": ("ElementLinePp(2)", "scalar", 3), "Pp3": ("ElementLinePp(3)", "scalar", 4),
        "Pp4": ("ElementLinePp(4)", "scalar", 3),
        "Hermite": ("ElementLineHermite()", "global", 4),
    },
    "tri": {
        "P0": ("ElementTriP0()", "scalar", 1), "P1": ("ElementTriP1()", "scalar", 3),
        "P2": ("ElementTriP2()", "scalar", 3), "P3": ("ElementTriP3()", "scalar", 1),
        "Mini": ("ElementTriMini()", "scalar", 1), "CR": ("ElementTriCR()", "scalar", 1),
        "CCR": ("ElementTriCCR()", "scalar", 1), "P1DG": ("ElementTriP1DG()", "scalar", 1),
        "DGP2": ("ElementDG(ElementTriP2())", "scalar", 1),
        "RT0": ("ElementTriRT0()", "hdiv", 1), "RT1": ("ElementTriRT1()", "hdiv", 1),
        "BDM1": ("ElementTriBDM1()", "hdiv", 1), "N1": ("ElementTriN1()", "hcurl", 1),
        "V1": ("ElementVector(ElementTriP1())", "vector", 2),
        "V2": ("ElementVector(ElementTriP2())", "vector", 1),
        "Morley": ("ElementTriMorley()", "global", 4),
        "Argyris": ("ElementTriArgyris()", "global", 2),
        "HermiteT": ("ElementTriHermite()", "global", 3),
        "P1G": ("ElementTriP1G()", "global", 2), "P2G": ("ElementTriP2G()", "global", 2),
        "Plate15": ("ElementTri15ParamPlate()", "global", 1),
        "TH": ("ElementVector(ElementTriP2()) * ElementTriP1()", "mixed", 1),
        # equal-order pairs: the composite's last basis function belongs to
        # the scalar part, so the vector part is asked for its zero field last
        "V1P1": ("ElementVector(ElementTriP1()) * ElementTriP1()", "mixed", 2),
        "VCRP0": ("ElementVector(ElementTriCR()) * ElementTriP0()", "mixed", 1),
    },
    "quad": {
        "Q0": ("ElementQuad0()", "scalar", 1), "Q1": ("ElementQuad1()", "scalar", 3),
        "Q2": ("ElementQuad2()", "scalar", 2), "S2": ("ElementQuadS2()", "scalar", 1),
        "Q1DG": ("ElementQuad1DG()", "scalar", 1), "RT0": ("ElementQuadRT0()", "hdiv", 1),
        "N1": ("ElementQuadN1()", "hcurl", 1),
        "QP2": ("ElementQuadP(2)", "scalar", 3), "QP3": ("ElementQuadP(3)", "scalar", 3),
        "Quad2G": ("ElementQuad2G()", "global", 2), "BFS": ("ElementQuadBFS()", "global", 3),
        "V1": ("ElementVector(ElementQuad1())", "vector", 1),
        "V1Q1": ("ElementVector(ElementQuad1()) * ElementQuad1()", "mixed", 1),
    },
    "tet": {
        "P0": ("ElementTetP0()", "scalar", 1), "P1": ("ElementTetP1()", "scalar", 3),
        "P2": ("ElementTetP2()", "scalar", 1), "Mini": ("ElementTetMini()", "scalar", 1),
        "CR": ("ElementTetCR()", "scalar", 1), "RT0": ("ElementTetRT0()", "hdiv", 1),
        "N0": ("ElementTetN0()", "hcurl", 1),
        "V1": ("ElementVector(ElementTetP1())", "vector", 1),
        "V1P1": ("ElementVector(ElementTetP1()) * ElementTetP1()", "mixed", 1),
    },
    "hex": {
        "H0": ("ElementHex0()", "scalar", 1), "H1": ("ElementHex1()", "scalar", 3),
        "S2": ("ElementHexS2()", "scalar", 1), "H1DG": ("ElementHex1DG()", "scalar", 1),
        "V1": ("ElementVector(ElementHex1())", "vector", 1),
    },
    "wedge": {"W1": ("ElementWedge1()", "scalar", 1)},
}

DIM = {"line": 1, "tri": 2, "quad": 2, "tet": 3, "hex": 3, "wedge": 3}


def skfem_ns():
    import skfem
    return {k: getattr(skfem, k) for k in dir(skfem) if k.startswith("Element")}


def make_elem(cell, name):
    return eval(ELEMS[cell][name][0], skfem_ns())


# ---------------------------------------------------------------- integrands
def _ip(a, b):
    """Inner product of two fields of equal tensor order (trailing two axes
    are cell and quadrature point)."""
    a = np.asarray(a)
    b = np.asarray(b)
    n = a.ndim - 2
    if n == 0:
        return a * b
    idx = "abcdef"[:n]
    return np.einsum("%s...,%s...->..." % (idx, idx), a, b)


def _split(args):
    w = args[-1]
    n = (len(args) - 1) // 2
    return args[:n], args[n:2 * n], w


def g_mass(*args):
    us, vs, w = _split(args)
    return sum(_ip(u, v) for u, v in zip(us, vs))


def g_stiff(*args):
    us, vs, w = _split(args)
    out = 0
    for u, v in zip(us, vs):
        if u.grad is not None and v.grad is not None:
            out = out + _ip(u.grad, v.grad)
        else:
            out = out + _ip(u, v)
            if u.div is not None and v.div is not None:
                out = out + _ip(u.div, v.div)
            if u.curl is not None and v.curl is not None:
                out = out + _ip(u.curl, v.curl)
    return out


def g_xmass(*args):
    us, vs, w = _split(args)
    return (1.0 + w.x[0] ** 2) * sum(_ip(u, v) for u, v in zip(us, vs))


def g_hmass(*args):
    us, vs, w = _split(args)
    return w.h * sum(_ip(u, v) for u, v in zip(us, vs))


def g_coefmass(*args):
    us, vs, w = _split(args)
    c = w["coef"]
    c = c[0] if isinstance(c, tuple) else c
    c = np.asarray(c)
    while c.ndim > 2:
        c = c[0]
    return c * sum(_ip(u, v) for u, v in zip(us, vs))


def g_scalmass(*args):
    us, vs, w = _split(args)
    return w["alpha"] * sum(_ip(u, v) for u, v in zip(us, vs))


def g_nmass(*args):
    us, vs, w = _split(args)
    return (1.0 + w.n[0]) * sum(_ip(u, v) for u, v in zip(us, vs))


BILINEAR = {"mass": g_mass, "stiff": g_stiff, "xmass": g_xmass,
            "hmass": g_hmass, "coefmass": g_coefmass, "scalmass": g_scalmass,
            "nmass": g_nmass}


def _fx(x):
    s = 1.0 + x[0]
    for d in range(1, x.shape[0]):
        s = s + (d + 1) * x[d] * x[0]
    return s


def _ones_like_field(v):
    return np.ones(np.asarray(v).shape[:-2] + (1, 1))


def l_load(*args):
    vs, w = args[:-1], args[-1]
    f = _fx(w.x)
    out = 0
    for v in vs:
        v = np.asarray(v)
        if v.ndim == 2:
            out = out + f * v
        else:
            out = out + f * v.reshape((-1,) + v.shape[-2:]).sum(axis=0)
    return out


def l_coefload(*args):
    vs, w = args[:-1], args[-1]
    c = w["coef"]
    c = c[0] if isinstance(c, tuple) else c
    c = np.asarray(c)
    while c.ndim > 2:
        c = c[0]
    out = 0
    for v in vs:
        v = np.asarray(v)
        if v.ndim == 2:
            out = out + c * v
        else:
            out = out + c * v.reshape((-1,) + v.shape[-2:]).sum(axis=0)
    return out


LINEAR = {"load": l_load, "coefload": l_coefload}


def f_x(w):
    return _fx(w.x)


def f_coef2(w):
    c = w["coef"]
    c = c[0] if isinstance(c, tuple) else c
    c = np.asarray(c)
    return (c.reshape((-1,) + c.shape[-2:]) ** 2).sum(axis=0)


FUNCTIONAL = {"x": f_x, "coef2": f_coef2}


EPOCH = [0]   # bumped by the engine before every op application


class Raiser:
    """Wrap an integrand so that it raises on its n-th invocation *within one
    operation* (the counter restarts with every op, so the callback itself
    carries no history from one op to the next)."""

    def __init__(self, fn, n):
        self.fn = fn
        self.n = n
        self.count = 0
        self.epoch = -1
        self.__name__ = getattr(fn, "__name__", "raiser")

    def __call__(self, *a):
        if self.epoch != EPOCH[0]:
            self.epoch = EPOCH[0]
            self.count = 0
        self.count += 1
        if self.count == self.n:
            raise RuntimeError("injected integrand failure")
        return self.fn(*a)


# ---------------------------------------------------------------- functions
def fun_poly(x):
    return _fx(x)


def fun_trig(x):
    s = np.sin(1.3 * x[0])
    for d in range(1, x.shape[0]):
        s = s + np.cos(0.7 * (d + 1) * x[d])
    return s


FUNS = {"poly": fun_poly, "trig": fun_trig}


def predicate(spec):
    """A facet/cell/node predicate from a JSON-able spec."""
    kind = spec["kind"]
    d = int(spec.get("axis", 0))
    c = float(spec.get("c", 0.5))
    if kind == "lt":
        return lambda x: x[d % x.shape[0]] < c
    if kind == "gt":
        return lambda x: x[d % x.shape[0]] > c
    if kind == "band":
        w = float(spec.get("w", 0.3))
        return lambda x: np.abs(x[d % x.shape[0]] - c) < w
    if kind == "all":
        return lambda x: x[0] == x[0]
    if kind == "raise":
        def f(x):
            raise RuntimeError("injected predicate failure")
        return f
    raise ValueError(kind)
