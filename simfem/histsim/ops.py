"""Operation registry for histsim.

Every op is applied through the *public* scikit-fem API.  ``gen`` draws
JSON-able arguments from a seeded RNG looking only at static metadata of the
pool (types, cell kinds, names); anything that depends on run-time sizes is
stored symbolically (fractions, seeds) and resolved inside ``apply`` from the
operands themselves, so the same op list can be applied to the warm pool, to
a fresh rebuild, and in another interpreter.
"""
import random

import numpy as np

from ..gen import meshes
from . import registry as R

OPS = {}


def ref(name):
    return {"ref": name}


def refs_in(args):
    out = []

    def walk(a):
        if isinstance(a, dict):
            if set(a) == {"ref"}:
                out.append(a["ref"])
            else:
                for v in a.values():
                    walk(v)
        elif isinstance(a, (list, tuple)):
            for v in a:
                walk(v)
    walk(args)
    return out


class Op:
    name = ""
    out = None          # type of the produced slot, or None for observers
    weight = 1.0
    consumes = ()       # arg names whose slot is retired (overwritten) by op
    mutates = ()        # arg names the CALLER overwrites in place (not the library)

    def gen(self, rng, S):
        raise NotImplementedError

    def apply(self, W, a):
        raise NotImplementedError

    def meta(self, a, S):
        return {}


def register(cls):
    o = cls()
    OPS[o.name] = o
    return cls


class GenState:
    """Static view of the pool while generating."""

    def __init__(self):
        self.slots = {}      # name -> {"type":..., meta}
        self.counter = 0
        self.retired = set()

    def new(self, typ, meta):
        name = "%s%d" % (typ[0] if typ != "mapping" else "g", self.counter)
        self.counter += 1
        self.slots[name] = dict(meta, type=typ)
        return name

    def of(self, typ, pred=None):
        return [n for n, m in self.slots.items()
                if m["type"] == typ and n not in self.retired
                and (pred is None or pred(m))]

    def pick(self, rng, typ, pred=None):
        c = self.of(typ, pred)
        return rng.choice(c) if c else None


# ----------------------------------------------------------------- helpers
def _wchoice(rng, table):
    names = sorted(table)
    ws = [table[n][2] for n in names]
    return rng.choices(names, weights=ws, k=1)[0]


def resolve_subset(n, spec):
    """Subset of range(n) from {"frac", "seed", "dtype"}; never empty."""
    r = random.Random(spec["seed"])
    k = max(1, min(n, int(round(spec["frac"] * n))))
    idx = sorted(r.sample(range(n), k))
    if spec.get("shuffle"):
        r.shuffle(idx)
    return np.array(idx, dtype=spec.get("dtype", "int32"))


def gen_subset(rng):
    return {"frac": rng.choice([0.1, 0.3, 0.5, 0.5, 0.9, 1.0]),
            "seed": rng.randrange(1 << 30),
            "dtype": rng.choice(["int32", "int32", "int64"]),
            "shuffle": rng.random() < 0.3}


def points_in_mesh(m, spec):
    """Seeded points inside the mesh (convex combinations of the vertices of
    seeded cells) or clearly outside."""
    r = np.random.Generator(np.random.PCG64(spec["seed"]))
    n = int(spec["n"])
    nv = m.elem.refdom.nnodes
    t = m.t[:nv]
    cells = r.integers(0, t.shape[1], size=n)
    w = r.uniform(0.15, 1.0, size=(nv, n))
    on = spec.get("on")
    if on == "vertex":
        # exactly on vertices: the owner cell is not unique there, but it
        # must be the same for a warm and a cold mesh
        w[:] = 0.0
        w[r.integers(0, nv, size=n), np.arange(n)] = 1.0
    elif on == "facet":
        # on the facet opposite to a seeded vertex (simplices) / on an edge
        w[r.integers(0, nv, size=n), np.arange(n)] = 0.0
        if nv > 3:
            w[r.integers(0, nv, size=n), np.arange(n)] = 0.0
        w[0] += (w.sum(axis=0) == 0)
    w /= w.sum(axis=0)
    P = np.einsum("dvn,vn->dn", m.p[:, t[:, cells]], w)
    if spec.get("outside"):
        P = P.copy()
        P[0, r.integers(0, n)] += 1e3
    return np.ascontiguousarray(P)


def gen_points(rng, outside=False):
    return {"seed": rng.randrange(1 << 30), "n": rng.choice([1, 3, 3, 4, 7]),
            "outside": outside,
            "on": rng.choice([None, None, None, "vertex", "facet"])}


def ref_points(dim, spec, ncells=None):
    """Seeded points in the reference cell, shared (dim, n) or per-cell
    (dim, ncells, n)."""
    r = np.random.Generator(np.random.PCG64(spec["seed"]))
    n = int(spec["n"])
    shape = (dim, n) if not spec.get("percell") else (dim, ncells, n)
    X = r.uniform(0.05, 0.95, size=shape)
    if dim > 1 and spec.get("simplex"):
        X = X / (1e-12 + X.sum(axis=0, keepdims=True)) * \
            r.uniform(0.1, 0.9, size=X.shape[1:])
    return np.ascontiguousarray(X)


def gen_refpoints(rng, simplex):
    return {"seed": rng.randrange(1 << 30), "n": rng.choice([1, 3, 3, 4]),
            "percell": rng.random() < 0.3, "simplex": simplex}


SIMPLEX = {"line": False, "tri": True, "tet": True, "quad": False,
           "hex": False, "wedge": False}


# ----------------------------------------------------------------- meshes
@register
class MkMesh(Op):
    name = "mk_mesh"
    out = "mesh"
    weight = 2.0

    def gen(self, rng, S):
        cell = rng.choice(["line", "tri", "tri", "quad", "quad", "tet",
                           "hex", "wedge"])
        max_n = {"line": 5, "tri": 3, "quad": 3, "tet": 1, "hex": 2,
                 "wedge": 1}[cell]
        rec = meshes.random_recipe(rng, [cell], max_n=max_n, order2=0.15)
        if rec["family"] == "tet-delaunay":
            rec["n"] = 1
        return {"recipe": rec}

    def meta(self, a, S):
        rec = a["recipe"]
        return {"cell": meshes.FAMILY_CELL[rec["family"]],
                "order": rec.get("order", 1), "b": [], "s": [],
                "topo": "T%d" % S.counter}

    def apply(self, W, a):
        return meshes.build(a["recipe"])


def _mesh_meta(S, src, **over):
    m = dict(S.slots[src])
    m.pop("type", None)
    m.update(over)
    return m


@register
class MeshRefined(Op):
    name = "mesh_refined"
    out = "mesh"
    weight = 1.5

    def gen(self, rng, S):
        m = S.pick(rng, "mesh", lambda x: x["cell"] != "wedge"
                   and x.get("size", 0) < 3)
        if m is None:
            return None
        cell = S.slots[m]["cell"]
        if cell in ("line", "tri", "tet") and rng.random() < 0.5:
            return {"mesh": ref(m), "marked": gen_subset(rng)}
        return {"mesh": ref(m), "times": 1}

    def meta(self, a, S):
        src = a["mesh"]["ref"]
        return _mesh_meta(S, src, size=S.slots[src].get("size", 0) + 1,
                          topo="T%d" % S.counter)

    def apply(self, W, a):
        m = W[a["mesh"]["ref"]]
        if "marked" in a:
            return m.refined(resolve_subset(m.nelements, a["marked"]))
        return m.refined(int(a["times"]))


@register
class MeshTransform(Op):
    name = "mesh_transform"
    out = "mesh"

    def gen(self, rng, S):
        m = S.pick(rng, "mesh")
        if m is None:
            return None
        cell = S.slots[m]["cell"]
        kinds = ["scaled", "translated", "mirrored", "morphed", "copy"]
        if cell in ("tri", "tet", "quad") and S.slots[m]["order"] == 1:
            kinds.append("smoothed")
        if cell in ("line", "tri", "tet"):
            kinds.append("oriented")
        return {"mesh": ref(m), "kind": rng.choice(kinds),
                "v": [round(rng.uniform(0.5, 2.0), 3) for _ in range(3)]}

    def meta(self, a, S):
        return _mesh_meta(S, a["mesh"]["ref"])

    def apply(self, W, a):
        m = W[a["mesh"]["ref"]]
        d = m.p.shape[0]
        v = a["v"][:d]
        k = a["kind"]
        if k == "scaled":
            return m.scaled(tuple(v))
        if k == "translated":
            return m.translated(tuple(v))
        if k == "mirrored":
            return m.mirrored(tuple(v), tuple(0.1 * x for x in v))
        if k == "morphed":
            return m.morphed(*[(lambda p, i=i: p[i] + 0.05 * v[i] * p[0])
                               for i in range(d)])
        if k == "copy":
            return m.copy()
        if k == "smoothed":
            return m.smoothed()
        if k == "oriented":
            return m.oriented()
        raise ValueError(k)


@register
class MeshRestrict(Op):
    name = "mesh_restrict"
    out = "mesh"

    def gen(self, rng, S):
        m = S.pick(rng, "mesh")
        if m is None:
            return None
        return {"mesh": ref(m), "sub": gen_subset(rng),
                "how": rng.choice(["restrict", "remove"])}

    def meta(self, a, S):
        return _mesh_meta(S, a["mesh"]["ref"], topo="T%d" % S.counter)

    def apply(self, W, a):
        m = W[a["mesh"]["ref"]]
        ix = np.sort(resolve_subset(m.nelements, a["sub"]))
        if a["how"] == "remove":
            if len(ix) == m.nelements:
                ix = ix[:-1] if len(ix) > 1 else ix
            if len(ix) == m.nelements:
                return m.restrict(ix)
            return m.remove_elements(ix)
        return m.restrict(ix)


@register
class MeshTag(Op):
    name = "mesh_tag"
    out = "mesh"
    weight = 1.5

    def gen(self, rng, S):
        m = S.pick(rng, "mesh")
        if m is None:
            return None
        what = rng.choice(["b", "s", "b-idx", "s-idx", "defaults", "b-ori",
                           "b-ori"])
        name = rng.choice(["left", "gamma", "gam", "om", "omega", "x", "top"])
        spec = {"kind": rng.choice(["lt", "gt", "band", "all"]),
                "axis": rng.randrange(3), "c": rng.choice([0.25, 0.5, 0.6]),
                "w": 0.3}
        if rng.random() < 0.06:
            spec = {"kind": "raise"}
        interior = False
        if what == "b-ori":
            # names of oriented sets start with "o"; most of them keep
            # interior facets only, so that both sides exist
            name = "o" + name
            interior = rng.random() < 0.7
        return {"mesh": ref(m), "what": what, "name": name, "spec": spec,
                "interior": interior,
                "sub": gen_subset(rng),
                "only_boundary": rng.random() < 0.5,
                "ori_how": rng.choice(["around", "around-flip", "normal"])}

    def meta(self, a, S):
        src = a["mesh"]["ref"]
        mm = _mesh_meta(S, src)
        if a["what"].startswith("b"):
            mm["b"] = sorted(set(mm["b"]) | {a["name"]})
        elif a["what"].startswith("s"):
            mm["s"] = sorted(set(mm["s"]) | {a["name"]})
        else:
            mm["b"] = sorted(set(mm["b"]) | {"left", "right"})
        return mm

    def apply(self, W, a):
        m = W[a["mesh"]["ref"]]
        w = a["what"]
        if w == "defaults":
            return m.with_defaults()
        if w == "b":
            return m.with_boundaries({a["name"]: R.predicate(a["spec"])},
                                     boundaries_only=a["only_boundary"])
        if w == "s":
            return m.with_subdomains({a["name"]: R.predicate(a["spec"])})
        if w == "b-idx":
            return m.with_boundaries(
                {a["name"]: resolve_subset(m.nfacets, a["sub"])})
        if w == "b-ori":
            # an oriented facet set obtained from the library's own selectors
            how = a.get("ori_how", "around")
            if how == "normal":
                spec = a["spec"] if a["spec"]["kind"] != "raise" \
                    else {"kind": "band", "axis": 0, "c": 0.5, "w": 0.3}
                nrm = np.zeros(m.p.shape[0])
                nrm[spec.get("axis", 0) % m.p.shape[0]] = 1.0
                ob = m.facets_satisfying(R.predicate(spec),
                                         boundaries_only=False, normal=nrm)
            else:
                el = np.sort(resolve_subset(m.nelements, a["sub"]))
                ob = m.facets_around(el, flip=(how == "around-flip"))
            from skfem.generic_utils import OrientedBoundary
            idx, ori = np.asarray(ob), np.asarray(ob.ori)
            # facets_around(flip=True) flags domain-boundary facets with
            # ori = 1 although there is no element on that side; a facet
            # basis on such a facet reads element -1 and uninitialised
            # normals (not reproducible): such pairs are not legal input
            keep = ~((m.f2t[1, idx] < 0) & (ori == 1))
            if a.get("interior"):
                keep &= m.f2t[1, idx] >= 0
            ob = OrientedBoundary(idx[keep], ori[keep])
            return m.with_boundaries({a["name"]: ob})
        return m.with_subdomains(
            {a["name"]: resolve_subset(m.nelements, a["sub"])})


@register
class MeshRebuild(Op):
    """A new mesh object constructed from an operand's own arrays (they may
    be shared, they must not be written)."""
    name = "mesh_rebuild"
    out = "mesh"
    weight = 1.0

    def gen(self, rng, S):
        m = S.pick(rng, "mesh", lambda x: x["cell"] != "wedge")
        if m is None:
            return None
        mm = S.slots[m]
        kinds = ["ctor", "ctor"]
        if mm["order"] == 1 and mm["cell"] in ("tri", "quad", "tet", "hex"):
            kinds.append("from_mesh-up")
        if mm["order"] == 2:
            kinds += ["from_mesh-down", "from_mesh-down"]
        return {"mesh": ref(m), "kind": rng.choice(kinds)}

    def meta(self, a, S):
        src = a["mesh"]["ref"]
        order = S.slots[src]["order"]
        if a["kind"] == "from_mesh-up":
            order = 2
        elif a["kind"] == "from_mesh-down":
            order = 1
        return _mesh_meta(S, src, order=order, b=[], s=[],
                          **({} if a["kind"] == "ctor" and S.slots[src]["order"] == 1
                             else {"topo": "T%d" % S.counter}))

    def apply(self, W, a):
        from skfem import mesh as skm
        m = W[a["mesh"]["ref"]]
        name = type(m).__name__
        if a["kind"] == "ctor":
            cls = getattr(skm, name[:-1] + "1")
            return cls(m.p[:, :m.nvertices] if name.endswith("2") else m.p, m.t)
        if a["kind"] == "from_mesh-up":
            return getattr(skm, name[:-1] + "2").from_mesh(m)
        return getattr(skm, name[:-1] + "1").from_mesh(m)


@register
class MeshConvert(Op):
    name = "mesh_convert"
    out = "mesh"
    weight = 0.5

    def gen(self, rng, S):
        m = S.pick(rng, "mesh", lambda x: x["cell"] in ("quad", "hex", "wedge")
                   and x["order"] == 1)
        if m is None:
            return None
        return {"mesh": ref(m), "x": rng.random() < 0.5}

    def meta(self, a, S):
        src = a["mesh"]["ref"]
        cell = {"quad": "tri", "hex": "tet", "wedge": "tet"}[S.slots[src]["cell"]]
        return _mesh_meta(S, src, cell=cell, topo="T%d" % S.counter)

    def apply(self, W, a):
        m = W[a["mesh"]["ref"]]
        if hasattr(m, "to_meshtri"):
            return m.to_meshtri(x=None if not a["x"] else None)
        return m.to_meshtet()


MESH_TABLES = ["facets", "t2f", "f2t", "edges", "t2e", "f2e",
               "boundary_facets", "boundary_nodes", "interior_nodes",
               "boundary_edges", "p2f", "p2t", "param", "nfacets",
               "dofs.element_dofs", "orientation", "nvertices"]


@register
class MeshTables(Op):
    name = "mesh_tables"
    weight = 2.0

    def gen(self, rng, S):
        m = S.pick(rng, "mesh")
        if m is None:
            return None
        k = rng.randint(1, 4)
        return {"mesh": ref(m), "names": rng.sample(MESH_TABLES, k)}

    def apply(self, W, a):
        m = W[a["mesh"]["ref"]]
        out = {}
        for n in a["names"]:
            try:
                if n in ("boundary_facets", "boundary_nodes", "interior_nodes",
                         "boundary_edges", "param", "orientation"):
                    out[n] = getattr(m, n)()
                elif n == "dofs.element_dofs":
                    out[n] = m.dofs.element_dofs
                else:
                    out[n] = getattr(m, n)
            except (NotImplementedError, AttributeError, TypeError) as e:
                out[n] = {"raises": type(e).__name__}
        return out


@register
class MkPoints(Op):
    """A point array the caller owns and keeps (a sensor position, a moving
    source): handed to point evaluations as the same array object."""
    name = "mk_points"
    out = "pts"
    weight = 0.8

    def gen(self, rng, S):
        m = S.pick(rng, "mesh")
        if m is None:
            return None
        return {"mesh": ref(m), "pts": gen_points(rng)}

    def meta(self, a, S):
        src = a["mesh"]["ref"]
        return {"mesh": src, "topo": S.slots[src].get("topo"),
                "cell": S.slots[src]["cell"]}

    def apply(self, W, a):
        return points_in_mesh(W[a["mesh"]["ref"]], a["pts"])


@register
class PointsOverwrite(Op):
    """The caller writes new coordinates (same count) into its own buffer:
    the same array object, other values.  The buffer's old slot is retired,
    the new slot is the same object."""
    name = "points_overwrite"
    out = "pts"
    weight = 0.8
    consumes = ("buf",)
    mutates = ("buf",)

    def gen(self, rng, S):
        p = S.pick(rng, "pts")
        if p is None:
            return None
        return {"buf": ref(p), "mesh": ref(S.slots[p]["mesh"]),
                "pts": gen_points(rng)}

    def meta(self, a, S):
        pm = dict(S.slots[a["buf"]["ref"]])
        pm.pop("type")
        return pm

    def apply(self, W, a):
        P = W[a["buf"]["ref"]]
        new = points_in_mesh(W[a["mesh"]["ref"]],
                             dict(a["pts"], n=P.shape[1]))
        P[...] = new
        return P


@register
class MeshFinder(Op):
    name = "mesh_finder"
    weight = 1.5

    def gen(self, rng, S):
        m = S.pick(rng, "mesh")
        if m is None:
            return None
        a = {"mesh": ref(m), "pts": gen_points(rng, rng.random() < 0.15),
             "twice": rng.random() < 0.3}
        p = S.pick(rng, "pts", lambda x: x["mesh"] == m)
        if p is not None and rng.random() < 0.5:
            a["pts_obj"] = ref(p)
        return a

    def apply(self, W, a):
        m = W[a["mesh"]["ref"]]
        P = W[a["pts_obj"]["ref"]] if "pts_obj" in a \
            else points_in_mesh(m, a["pts"])
        f = m.element_finder()
        out = [f(*P)]
        if a["twice"]:
            out.append(f(*P[:, ::-1]))
        return out


@register
class MeshSelectors(Op):
    name = "mesh_selectors"

    def gen(self, rng, S):
        m = S.pick(rng, "mesh")
        if m is None:
            return None
        mm = S.slots[m]
        forms = ["pred", "idx", "list"]
        if mm["b"]:
            forms += ["bname", "bset"]
        if mm["s"]:
            forms += ["sname", "sset"]
        forms.append("unknown")
        return {"mesh": ref(m), "form": rng.choice(forms),
                "b": list(mm["b"]), "s": list(mm["s"]),
                "spec": {"kind": rng.choice(["lt", "gt", "band"]),
                         "axis": rng.randrange(3), "c": 0.5, "w": 0.3},
                "sub": gen_subset(rng)}

    def apply(self, W, a):
        m = W[a["mesh"]["ref"]]
        f = a["form"]
        if f == "pred":
            return [m.normalize_facets(R.predicate(a["spec"])),
                    m.normalize_elements(R.predicate(a["spec"])),
                    m.normalize_nodes(R.predicate(a["spec"]))]
        if f == "idx":
            return [m.normalize_elements(resolve_subset(m.nelements, a["sub"]))]
        if f == "list":
            ix = resolve_subset(m.nelements, a["sub"])
            return [m.normalize_elements([ix, R.predicate(a["spec"])])]
        if f == "bname":
            return [m.normalize_facets(a["b"][0])]
        if f == "bset":
            return [m.normalize_facets(set(a["b"]))]
        if f == "sname":
            return [m.normalize_elements(a["s"][0])]
        if f == "sset":
            return [m.normalize_elements(set(a["s"]))]
        return [m.normalize_facets("no-such-name")]


# ----------------------------------------------------------------- elements
@register
class MkElem(Op):
    name = "mk_elem"
    out = "elem"
    weight = 2.0

    def gen(self, rng, S):
        cells = sorted({m["cell"] for m in S.slots.values()
                        if m["type"] == "mesh"}) or ["tri"]
        cell = rng.choice(cells)
        name = _wchoice(rng, R.ELEMS[cell])
        return {"cell": cell, "name": name}

    def meta(self, a, S):
        return {"cell": a["cell"], "name": a["name"],
                "kind": R.ELEMS[a["cell"]][a["name"]][1]}

    def apply(self, W, a):
        return R.make_elem(a["cell"], a["name"])


@register
class ElemLbasis(Op):
    """Direct evaluation of reference shape functions at seeded point sets
    (equal sizes on purpose)."""
    name = "elem_lbasis"
    weight = 1.5

    def gen(self, rng, S):
        e = S.pick(rng, "elem", lambda x: x["kind"] in ("scalar", "hdiv",
                                                        "hcurl"))
        if e is None:
            return None
        cell = S.slots[e]["cell"]
        sp = gen_refpoints(rng, SIMPLEX[cell])
        sp["percell"] = sp["percell"] and rng.random() < 0.5
        return {"elem": ref(e), "X": sp, "i": rng.randrange(3),
                "ncells": rng.choice([1, 2, 3])}

    def apply(self, W, a):
        e = W[a["elem"]["ref"]]
        X = ref_points(e.refdom.dim(), a["X"], a["ncells"])
        return list(e.lbasis(X, a["i"]))


# ----------------------------------------------------------------- mappings
@register
class MkMapping(Op):
    name = "mk_mapping"
    out = "mapping"

    def gen(self, rng, S):
        m = S.pick(rng, "mesh")
        if m is None:
            return None
        cell = S.slots[m]["cell"]
        kinds = ["default", "default", "iso"]
        if cell in ("line", "tri", "tet") and S.slots[m]["order"] == 1:
            kinds.append("affine")
        return {"mesh": ref(m), "kind": rng.choice(kinds)}

    def meta(self, a, S):
        src = a["mesh"]["ref"]
        return {"mesh": src, "cell": S.slots[src]["cell"]}

    def apply(self, W, a):
        from skfem.mapping import MappingAffine, MappingIsoparametric
        m = W[a["mesh"]["ref"]]
        if a["kind"] == "default":
            return m.mapping()
        if a["kind"] == "affine":
            return MappingAffine(m)
        return MappingIsoparametric(m, m.elem(), m.bndelem)


MAP_FUNS = ["F", "invF", "DF", "invDF", "detDF", "G", "detDG", "normals"]


@register
class MappingEval(Op):
    name = "mapping_eval"
    weight = 3.0

    def gen(self, rng, S):
        g = S.pick(rng, "mapping")
        if g is None:
            return None
        cell = S.slots[g]["cell"]
        fn = rng.choice(MAP_FUNS)
        sub = gen_subset(rng) if rng.random() < 0.6 else None
        return {"map": ref(g), "fn": fn, "X": gen_refpoints(rng, SIMPLEX[cell]),
                "sub": sub, "repeat": rng.random() < 0.3}

    def apply(self, W, a):
        g = W[a["map"]["ref"]]
        m = g.mesh
        dim = m.dim()
        fn = a["fn"]
        out = []
        for rep in range(2 if a["repeat"] else 1):
            if fn in ("G", "detDG"):
                if dim == 1:
                    return {"skipped": "no facet map in 1-D"}
                find = None
                if a["sub"] is not None:
                    find = resolve_subset(m.nfacets, a["sub"])
                spec = dict(a["X"], percell=False, seed=a["X"]["seed"] + rep)
                Xf = ref_points(dim - 1, spec)
                out.append(getattr(g, fn)(Xf, find=find))
                continue
            tind = None
            if a["sub"] is not None:
                tind = resolve_subset(m.nelements, a["sub"])
            nc = m.nelements if tind is None else len(tind)
            spec = dict(a["X"], seed=a["X"]["seed"] + rep)
            X = ref_points(dim, spec, nc)
            if fn == "invF":
                x = g.F(X, tind=tind)
                out.append(g.invF(x, tind=tind))
            elif fn == "normals":
                if dim == 1:
                    return {"skipped": "1-D"}
                bf = m.boundary_facets()
                if a["sub"] is not None:
                    bf = bf[resolve_subset(len(bf), a["sub"])] if len(bf) else bf
                ti = m.f2t[0, bf]
                spec = dict(a["X"], percell=True)
                Xn = ref_points(dim, spec, len(bf))
                out.append(g.normals(Xn, ti, bf, m.t2f))
            else:
                out.append(getattr(g, fn)(X, tind=tind))
        return out


# ----------------------------------------------------------------- bases
@register
class MkBasis(Op):
    name = "mk_basis"
    out = "basis"
    weight = 4.0

    def gen(self, rng, S):
        m = S.pick(rng, "mesh")
        if m is None:
            return None
        cell = S.slots[m]["cell"]
        e = S.pick(rng, "elem", lambda x: x["cell"] == cell)
        if e is None:
            return None
        kind = rng.choice(["cell", "cell", "cell", "cell-subset", "facet",
                           "ifacet0", "ifacet1", "facet-subset"])
        if cell == "line" and kind != "cell" and kind != "cell-subset":
            kind = "cell"
        bnames = S.slots[m]["b"]
        named = None
        if cell != "line" and bnames and rng.random() < 0.3:
            kind = "facet-named"
            onames = [n for n in bnames if n.startswith("o")]
            if onames and rng.random() < 0.7:
                bnames = onames
            named = {"name": rng.choice(bnames),
                     "side": rng.choice([0, 0, 1, 1]),
                     "by": rng.choice(["name", "object"])}
        g = None
        if rng.random() < 0.3:
            g = S.pick(rng, "mapping", lambda x: x["mesh"] == m)
        ekind = S.slots[e]["kind"]
        io = rng.choice([None, None, 0, 1, 2, 3, 4])
        if ekind == "global" and (io is None or io < 2):
            io = 4
        a = {"mesh": ref(m), "elem": ref(e), "kind": kind, "intorder": io,
             "sub": gen_subset(rng)}
        if g is not None:
            a["map"] = ref(g)
        if named is not None:
            a["named"] = named
        if kind in ("cell", "cell-subset") and ekind != "global" \
                and rng.random() < 0.15:
            # the caller's own (X, W) tuple, taken from an earlier basis on a
            # mesh of the same cell kind and handed on through quadrature=
            q = S.pick(rng, "basis", lambda x: x["cell"] == cell
                       and x["kind"] in ("cell", "cell-subset")
                       and not x.get("composite"))
            if q is not None:
                a["quad_from"] = ref(q)
                a["intorder"] = S.slots[q]["io"]
        d = S.pick(rng, "dofs", lambda x: x["elem"] == e
                   and x.get("topo") == S.slots[m].get("topo"))
        if d is not None and rng.random() < 0.6:
            # a pool Dofs object (possibly already used by other bases, on
            # this mesh or on a transformed copy of it)
            a["dofs_obj"] = ref(d)
        elif rng.random() < 0.2:
            # share the Dofs object of an earlier basis on the same mesh and
            # the same element object
            # (also of a basis on ANOTHER mesh object with the same cells:
            # a translated / scaled / tagged copy - the numbering depends on
            # topology and element only)
            topo = S.slots[m].get("topo")
            other = S.pick(rng, "basis", lambda x: x["elem"] == e
                           and not x.get("composite")
                           and S.slots.get(x["mesh"], {}).get("topo") == topo)
            if other is not None:
                a["dofs_from"] = ref(other)
        return a

    def meta(self, a, S):
        e = a["elem"]["ref"]
        m = a["mesh"]["ref"]
        return {"mesh": m, "elem": e, "kind": a["kind"],
                "cell": S.slots[m]["cell"], "ekind": S.slots[e]["kind"],
                "ename": S.slots[e]["name"], "io": a["intorder"],
                "b": S.slots[m]["b"], "s": S.slots[m]["s"]}

    def apply(self, W, a):
        from skfem import CellBasis, FacetBasis, InteriorFacetBasis
        m = W[a["mesh"]["ref"]]
        e = W[a["elem"]["ref"]]
        g = W[a["map"]["ref"]] if "map" in a else None
        k = a["kind"]
        io = a["intorder"]
        kw = {}
        if "dofs_obj" in a:
            kw["dofs"] = W[a["dofs_obj"]["ref"]]
        elif "dofs_from" in a:
            kw["dofs"] = W[a["dofs_from"]["ref"]].dofs
        if "quad_from" in a:
            kw["quadrature"] = W[a["quad_from"]["ref"]].quadrature
            io = None
        if k == "facet-named":
            nm = a["named"]
            fs = m.boundaries[nm["name"]]
            side = int(nm["side"])
            if side == 1 and (m.f2t[1, np.asarray(fs)] < 0).any():
                side = 0   # side 1 exists for interior facets only
            return FacetBasis(m, e, mapping=g, intorder=io,
                              facets=nm["name"] if nm["by"] == "name" else fs,
                              side=side, **kw)
        if k == "cell":
            return CellBasis(m, e, mapping=g, intorder=io, **kw)
        if k == "cell-subset":
            return CellBasis(m, e, mapping=g, intorder=io,
                             elements=resolve_subset(m.nelements, a["sub"]),
                             **kw)
        if k == "facet":
            return FacetBasis(m, e, mapping=g, intorder=io, **kw)
        if k == "facet-subset":
            bf = m.boundary_facets()
            return FacetBasis(m, e, mapping=g, intorder=io,
                              facets=bf[resolve_subset(len(bf), a["sub"])],
                              **kw)
        return InteriorFacetBasis(m, e, mapping=g, intorder=io,
                                  side=int(k[-1]), **kw)


@register
class BasisDerive(Op):
    name = "basis_derive"
    out = "basis"

    def gen(self, rng, S):
        b = S.pick(rng, "basis", lambda x: x["kind"] == "cell")
        if b is None:
            return None
        bm = S.slots[b]
        how = rng.choice(["with_element", "boundary", "with_elements"])
        a = {"basis": ref(b), "how": how, "sub": gen_subset(rng)}
        if how == "with_element":
            e = S.pick(rng, "elem", lambda x: x["cell"] == bm["cell"])
            if e is None:
                return None
            a["elem"] = ref(e)
        return a

    def meta(self, a, S):
        bm = dict(S.slots[a["basis"]["ref"]])
        bm.pop("type")
        if a["how"] == "with_element":
            e = a["elem"]["ref"]
            bm.update(elem=e, ekind=S.slots[e]["kind"],
                      ename=S.slots[e]["name"])
        elif a["how"] == "boundary":
            bm.update(kind="facet")
        else:
            bm.update(kind="cell-subset")
        return bm

    def apply(self, W, a):
        b = W[a["basis"]["ref"]]
        if a["how"] == "with_element":
            return b.with_element(W[a["elem"]["ref"]])
        if a["how"] == "boundary":
            return b.boundary()
        return b.with_elements(resolve_subset(b.mesh.nelements, a["sub"]))


@register
class MkDofs(Op):
    """A Dofs object (numbering of an element on a mesh topology) as a
    first-class pool object, to be shared by several bases through the
    public dofs= parameter."""
    name = "mk_dofs"
    out = "dofs"
    weight = 0.8

    def gen(self, rng, S):
        m = S.pick(rng, "mesh")
        if m is None:
            return None
        cell = S.slots[m]["cell"]
        e = S.pick(rng, "elem", lambda x: x["cell"] == cell)
        if e is None:
            return None
        return {"mesh": ref(m), "elem": ref(e)}

    def meta(self, a, S):
        return {"mesh": a["mesh"]["ref"], "elem": a["elem"]["ref"],
                "topo": S.slots[a["mesh"]["ref"]].get("topo")}

    def apply(self, W, a):
        from skfem.assembly import Dofs
        return Dofs(W[a["mesh"]["ref"]], W[a["elem"]["ref"]])


@register
class MkComposite(Op):
    """b1 * b2 (CompositeBasis) of two bases on the same mesh with the same
    quadrature; its lazily built tables live on the composite object, its
    fields alias the components'."""
    name = "mk_composite"
    out = "basis"
    weight = 0.8

    def gen(self, rng, S):
        b1 = S.pick(rng, "basis", lambda x: x["kind"] == "cell"
                    and x["io"] is not None and not x.get("composite")
                    and x["ekind"] in ("scalar", "vector"))
        if b1 is None:
            return None
        m1 = S.slots[b1]
        b2 = S.pick(rng, "basis", lambda x: x["kind"] == "cell"
                    and x["mesh"] == m1["mesh"] and x["io"] == m1["io"]
                    and not x.get("composite")
                    and x["ekind"] in ("scalar", "vector"))
        if b2 is None:
            return None
        return {"b1": ref(b1), "b2": ref(b2),
                "equal": False}

    def meta(self, a, S):
        bm = dict(S.slots[a["b1"]["ref"]])
        bm.pop("type")
        bm.update(ekind="composite", composite=True, ename="composite")
        return bm

    def apply(self, W, a):
        return W[a["b1"]["ref"]] * W[a["b2"]["ref"]]


BASIS_OBS = ["basis", "dx", "doflocs", "element_dofs", "global_coordinates",
             "mesh_parameters", "default_parameters", "N", "nodal_dofs",
             "facet_dofs", "interior_dofs", "split_indices", "normals",
             "quadrature"]


@register
class BasisObserve(Op):
    name = "basis_observe"
    weight = 2.0

    def gen(self, rng, S):
        b = S.pick(rng, "basis")
        if b is None:
            return None
        return {"basis": ref(b), "names": rng.sample(BASIS_OBS,
                                                     rng.randint(1, 4))}

    def apply(self, W, a):
        b = W[a["basis"]["ref"]]
        out = {}
        for n in a["names"]:
            try:
                if n == "basis":
                    out[n] = [list(t) for t in b.basis]
                elif n in ("global_coordinates", "mesh_parameters",
                           "default_parameters", "split_indices"):
                    out[n] = getattr(b, n)()
                else:
                    out[n] = getattr(b, n)
            except (NotImplementedError, AttributeError) as e:
                out[n] = {"raises": type(e).__name__}
        return out


@register
class MkVec(Op):
    name = "mk_vec"
    out = "vec"
    weight = 2.0

    def gen(self, rng, S):
        b = S.pick(rng, "basis")
        if b is None:
            return None
        how = rng.choice(["random", "random", "project", "ones"])
        return {"basis": ref(b), "how": how, "seed": rng.randrange(1 << 30),
                "fun": rng.choice(sorted(R.FUNS)),
                "dtype": rng.choice([None, None, "complex64", "complex128",
                                     "float32"]),
                "wrong_len": rng.random() < 0.03}

    def meta(self, a, S):
        bm = S.slots[a["basis"]["ref"]]
        return {"basis": a["basis"]["ref"], "cell": bm["cell"],
                "ekind": bm["ekind"], "wrong": a["wrong_len"]}

    def apply(self, W, a):
        b = W[a["basis"]["ref"]]
        n = b.N + (1 if a["wrong_len"] else 0)
        if a["how"] == "random":
            return np.random.Generator(np.random.PCG64(a["seed"])) \
                .standard_normal(n)
        if a["how"] == "ones":
            return np.ones(n)
        if a.get("dtype"):
            return b.project(R.FUNS[a["fun"]], dtype=getattr(np, a["dtype"]))
        return b.project(R.FUNS[a["fun"]])


@register
class BasisInterpolate(Op):
    name = "basis_interpolate"
    weight = 2.0

    def gen(self, rng, S):
        v = S.pick(rng, "vec")
        if v is None:
            return None
        return {"vec": ref(v), "basis": ref(S.slots[v]["basis"])}

    def apply(self, W, a):
        b = W[a["basis"]["ref"]]
        f = b.interpolate(W[a["vec"]["ref"]])
        return list(f) if isinstance(f, tuple) else f


@register
class BasisPoint(Op):
    name = "basis_point"
    weight = 2.5

    def gen(self, rng, S):
        v = S.pick(rng, "vec", lambda x: x["ekind"] in ("scalar", "global",
                                                        "vector", "hdiv"))
        if v is None:
            return None
        b = S.slots[v]["basis"]
        if S.slots[b]["kind"] not in ("cell",):
            return None
        a = {"vec": ref(v), "basis": ref(b),
             "how": rng.choice(["probes", "interpolator", "point_source"]),
             "pts": gen_points(rng, rng.random() < 0.1),
             "again": rng.random() < 0.4}
        bm = S.slots[b]
        p = S.pick(rng, "pts", lambda x: x["mesh"] == bm["mesh"])
        if p is not None and rng.random() < 0.6:
            # the caller's own (kept, possibly overwritten) point array
            a["pts_obj"] = ref(p)
            a["again"] = False
        return a

    def apply(self, W, a):
        b = W[a["basis"]["ref"]]
        y = W[a["vec"]["ref"]]
        out = []
        for rep in range(2 if a["again"] else 1):
            spec = dict(a["pts"], seed=a["pts"]["seed"] + rep)
            P = W[a["pts_obj"]["ref"]] if "pts_obj" in a \
                else points_in_mesh(b.mesh, spec)
            if a["how"] == "probes":
                out.append(b.probes(P))
            elif a["how"] == "interpolator":
                out.append(b.interpolator(y)(P))
            else:
                out.append(b.point_source(P[:, 0]))
        return out


@register
class BasisGetDofs(Op):
    name = "basis_get_dofs"
    out = "dview"
    weight = 2.0

    def meta(self, a, S):
        return {"basis": a["basis"]["ref"]}

    def gen(self, rng, S):
        b = S.pick(rng, "basis")
        if b is None:
            return None
        bm = S.slots[b]
        forms = ["none", "pred", "elements-pred", "nodes-pred", "idx"]
        if bm["b"]:
            forms += ["bname", "bset", "blist", "bdict-all"]
        if bm["s"]:
            forms += ["sname", "sset"]
        forms.append("unknown")
        return {"basis": ref(b), "form": rng.choice(forms), "b": list(bm["b"]),
                "s": list(bm["s"]),
                "spec": {"kind": rng.choice(["lt", "gt", "band"]),
                         "axis": rng.randrange(3), "c": 0.5, "w": 0.3},
                "sub": gen_subset(rng), "skip": rng.random() < 0.2}

    def apply(self, W, a):
        b = W[a["basis"]["ref"]]
        f = a["form"]
        pr = R.predicate(a["spec"])
        if f == "none":
            return b.get_dofs()
        if f == "pred":
            return b.get_dofs(pr)
        if f == "elements-pred":
            return b.get_dofs(elements=pr)
        if f == "nodes-pred":
            return b.get_dofs(nodes=pr)
        if f == "idx":
            return b.get_dofs(resolve_subset(b.mesh.nfacets, a["sub"]))
        if f == "bname":
            return b.get_dofs(a["b"][0])
        if f == "bset":
            return b.get_dofs(set(a["b"]))
        if f == "blist":
            return b.get_dofs(list(a["b"]))
        if f == "bdict-all":
            return b.get_dofs({k: k for k in a["b"]})
        if f == "sname":
            return b.get_dofs(elements=a["s"][0])
        if f == "sset":
            return b.get_dofs(elements=set(a["s"]))
        return b.get_dofs("no-such-boundary")


@register
class DofsViewOps(Op):
    """Derived views and index arrays of a DofsView the caller keeps."""
    name = "dofs_view_ops"
    weight = 1.5

    def gen(self, rng, S):
        v = S.pick(rng, "dview")
        if v is None:
            return None
        b = S.slots[v]["basis"]
        a = {"view": ref(v), "basis": ref(b), "seed": rng.randrange(1 << 30),
             "how": rng.choice(["keep", "drop", "all", "all-key", "flatten",
                                "or", "sort", "parts", "complement", "array",
                                "len", "keep-drop"])}
        o = S.pick(rng, "dview", lambda x: x["basis"] == b)
        if o is not None:
            a["other"] = ref(o)
        return a

    @staticmethod
    def _one(v):
        if isinstance(v, dict):
            return v[sorted(v)[0]] if v else None
        return v

    def apply(self, W, a):
        v = self._one(W[a["view"]["ref"]])
        b = W[a["basis"]["ref"]]
        if v is None:
            return {"skipped": "empty dict of views"}
        r = random.Random(a["seed"])
        names = sorted(set(n for n in v.obj.element.dofnames if n))
        some = [n for n in names if r.random() < 0.5] or names[:1]
        h = a["how"]
        if h == "keep":
            return v.keep(some)
        if h == "drop":
            return v.drop(some)
        if h == "keep-drop":
            return v.keep(names).drop(some)
        if h == "all":
            return v.all()
        if h == "all-key":
            return v.all(some)
        if h == "flatten":
            return v.flatten()
        if h == "or":
            o = self._one(W[a["other"]["ref"]]) if "other" in a else v
            import warnings
            with warnings.catch_warnings():
                warnings.simplefilter("ignore")
                return (v | (o if o is not None else v))
        if h == "sort":
            return v.sort()
        if h == "parts":
            return [v.nodal, v.facet, v.edge, v.interior]
        if h == "complement":
            return b.complement_dofs(v)
        if h == "array":
            return np.asarray(v)
        return len(v)


@register
class BasisMisc(Op):
    name = "basis_misc"

    def gen(self, rng, S):
        v = S.pick(rng, "vec")
        if v is None:
            return None
        b = S.slots[v]["basis"]
        return {"vec": ref(v), "basis": ref(b),
                "how": rng.choice(["split", "refinterp", "project-self",
                                   "project-fun", "project-fun", "zeros"]),
                "dtype": rng.choice([None, None, "complex64", "complex128",
                                     "float32"]),
                "fun": rng.choice(sorted(R.FUNS))}

    def apply(self, W, a):
        b = W[a["basis"]["ref"]]
        y = W[a["vec"]["ref"]]
        h = a["how"]
        if h == "split":
            return [x for x, _ in b.split(y)]
        if h == "refinterp":
            M, w = b.refinterp(y, 1)
            return [M, w]
        if h == "project-self":
            return b.project(b.interpolate(y))
        if h == "project-fun":
            if a.get("dtype"):
                return b.project(R.FUNS[a["fun"]],
                                 dtype=getattr(np, a["dtype"]))
            return b.project(R.FUNS[a["fun"]])
        return [b.zeros(), b.ones()]


# ----------------------------------------------------------------- forms
@register
class MkForm(Op):
    name = "mk_form"
    out = "form"
    weight = 2.0

    def gen(self, rng, S):
        typ = rng.choice(["bilinear", "bilinear", "linear", "functional"])
        names = {"bilinear": sorted(R.BILINEAR) + ["model:laplace",
                                                   "model:mass"],
                 "linear": sorted(R.LINEAR) + ["model:unit_load"],
                 "functional": sorted(R.FUNCTIONAL)}[typ]
        return {"typ": typ, "name": rng.choice(names),
                "decor": rng.choice(["ctor", "ctor", "partial"]),
                "raise_at": rng.choice([1, 2, 5]) if rng.random() < 0.05 else 0,
                "dtype": rng.choice(["float64", "float64", "complex128"]),
                # a form object that assembles with worker threads and is
                # used for several assemblies (state kept on the form)
                "nthreads": rng.choice([0, 0, 0, 0, 0, 0, 1, 2])
                if typ == "bilinear" else 0}

    def meta(self, a, S):
        return {"typ": a["typ"], "name": a["name"]}

    def apply(self, W, a):
        from skfem import BilinearForm, LinearForm, Functional
        if a["name"].startswith("model:"):
            # the module-level form objects of skfem.models: one object
            # shared by every user in the interpreter
            from skfem.models import poisson
            return getattr(poisson, a["name"][6:])
        table = {"bilinear": (R.BILINEAR, BilinearForm),
                 "linear": (R.LINEAR, LinearForm),
                 "functional": (R.FUNCTIONAL, Functional)}[a["typ"]]
        fn = table[0][a["name"]]
        if a["raise_at"]:
            fn = R.Raiser(fn, a["raise_at"])
        dt = np.float64 if a["dtype"] == "float64" else np.complex128
        if a.get("nthreads") and a["typ"] == "bilinear" and not a["raise_at"]:
            return table[1](fn, dtype=dt, nthreads=int(a["nthreads"]))
        return table[1](fn, dtype=dt)


@register
class Assemble(Op):
    name = "assemble"
    out = "asm"
    weight = 4.0

    def gen(self, rng, S):
        f = S.pick(rng, "form")
        b = S.pick(rng, "basis")
        if f is None or b is None:
            return None
        fm, bm = S.slots[f], S.slots[b]
        a = {"form": ref(f), "basis": ref(b),
             "entry": rng.choice(["assemble", "assemble", "asm", "elemental"])}
        name = fm["name"]
        if name in ("coefmass", "coefload", "coef2"):
            v = S.pick(rng, "vec", lambda x: x["basis"] == b)
            if v is None:
                return None
            a["coef"] = ref(v)
            a["coef_as"] = rng.choice(["vector", "field"])
        if name == "scalmass":
            a["alpha"] = rng.choice([0.5, 2.0, 3])
        if name == "nmass" and bm["kind"] in ("cell", "cell-subset"):
            return None
        if fm["typ"] == "bilinear" and rng.random() < 0.25:
            b2 = S.pick(rng, "basis", lambda x: x["mesh"] == bm["mesh"]
                        and x["kind"] == bm["kind"] and x["io"] == bm["io"]
                        and x["ekind"] == bm["ekind"])
            if b2 is not None and bm["io"] is not None and bm["kind"] == "cell":
                a["vbasis"] = ref(b2)
        return a

    def meta(self, a, S):
        fm = S.slots[a["form"]["ref"]]
        return {"typ": fm["typ"], "basis": a["basis"]["ref"],
                "vbasis": a.get("vbasis", a["basis"])["ref"],
                "entry": a["entry"]}

    def apply(self, W, a):
        from skfem import asm
        form = W[a["form"]["ref"]]
        b = W[a["basis"]["ref"]]
        kw = {}
        if "coef" in a:
            v = W[a["coef"]["ref"]]
            kw["coef"] = v if a["coef_as"] == "vector" else b.interpolate(v)
        if "alpha" in a:
            kw["alpha"] = a["alpha"]
        args = [b]
        if "vbasis" in a:
            args.append(W[a["vbasis"]["ref"]])
        if a["entry"] == "assemble":
            return form.assemble(*args, **kw)
        if a["entry"] == "asm":
            return asm(form, *args, **kw)
        return form.elemental(*args, **kw)


# ----------------------------------------------------------------- BC + solve
@register
class BCHelper(Op):
    name = "bc_helper"
    weight = 2.5

    def gen(self, rng, S):
        A = S.pick(rng, "asm", lambda x: x["typ"] == "bilinear"
                   and x["entry"] != "elemental" and x["basis"] == x["vbasis"])
        if A is None:
            return None
        b = S.slots[A]["basis"]
        rhs = S.pick(rng, "asm", lambda x: x["typ"] == "linear"
                     and x["entry"] != "elemental" and x["basis"] == b)
        xv = S.pick(rng, "vec", lambda x: x["basis"] == b and not x["wrong"])
        a = {"A": ref(A), "basis": ref(b),
             "how": rng.choice(["condense", "enforce", "penalize", "condense",
                                "enforce"]),
             "D": rng.choice(["get_dofs", "array", "I-array", "dict"]),
             "sub": gen_subset(rng), "expand": rng.random() < 0.7}
        if rhs is None or rng.random() < 0.3:
            rhs = S.pick(rng, "vec", lambda x: x["basis"] == b
                         and not x["wrong"]) or rhs
        if rhs is not None and rng.random() < 0.8:
            a["b"] = ref(rhs)
        elif rng.random() < 0.3:
            M = S.pick(rng, "asm", lambda x: x["typ"] == "bilinear"
                       and x["entry"] != "elemental" and x["basis"] == b
                       and x["vbasis"] == b)
            if M is not None:
                a["b"] = ref(M)
        if xv is not None and rng.random() < 0.5:
            a["x"] = ref(xv)
        dv = S.pick(rng, "dview", lambda x: x["basis"] == b)
        if dv is not None and rng.random() < 0.35:
            # a DofsView (or dict of them) the caller keeps
            a["Dview"] = ref(dv)
        return a

    @staticmethod
    def _dofs(b, a, W=None):
        how = a["D"]
        if "Dview" in a and W is not None:
            v = W[a["Dview"]["ref"]]
            if not (isinstance(v, dict) and not v) and \
                    len(np.asarray(DofsViewOps._one(v))) < b.N:
                return {"D": v}
        if how == "get_dofs":
            return {"D": b.get_dofs()}
        ix = np.sort(resolve_subset(b.N, dict(a["sub"], dtype="int32")))
        if len(ix) == b.N:
            ix = ix[:-1]
        if how == "array":
            return {"D": ix}
        if how == "I-array":
            return {"I": ix}
        return {"D": {"all": b.get_dofs()}}

    def apply(self, W, a):
        from skfem import condense, enforce, penalize
        A = W[a["A"]["ref"]]
        b = W[a["basis"]["ref"]]
        kw = self._dofs(b, a, W)
        if "b" in a:
            kw["b"] = W[a["b"]["ref"]]
        if "x" in a:
            kw["x"] = W[a["x"]["ref"]]
        if a["how"] == "condense":
            out = condense(A, expand=a["expand"], **kw)
        elif a["how"] == "enforce":
            out = enforce(A, **kw)
        else:
            out = penalize(A, **kw)
        return list(out) if isinstance(out, tuple) else out


@register
class EnforceOverwrite(Op):
    """overwrite=True applied to an explicit pool copy: the operand slots are
    retired, the returned system becomes a new slot."""
    name = "enforce_overwrite"
    out = "sys"
    weight = 0.7

    def gen(self, rng, S):
        A = S.pick(rng, "asm", lambda x: x["typ"] == "bilinear"
                   and x["entry"] != "elemental" and x["basis"] == x["vbasis"])
        if A is None:
            return None
        b = S.slots[A]["basis"]
        rhs = S.pick(rng, "asm", lambda x: x["typ"] == "linear"
                     and x["entry"] != "elemental" and x["basis"] == b)
        if rhs is None:
            return None
        return {"A": ref(A), "b": ref(rhs), "basis": ref(b),
                "how": rng.choice(["enforce", "penalize"])}

    def meta(self, a, S):
        return {"basis": a["basis"]["ref"]}

    def apply(self, W, a):
        from skfem import enforce, penalize
        # explicit copies: the pool's A and b stay untouched
        A = W[a["A"]["ref"]].copy()
        b = W[a["b"]["ref"]].copy()
        basis = W[a["basis"]["ref"]]
        f = enforce if a["how"] == "enforce" else penalize
        A2, b2 = f(A, b, D=basis.get_dofs(), overwrite=True)
        return [A2, b2, A, b]


@register
class MkSystem(Op):
    """A constrained system kept in the pool as the tuple the library
    returned (condense with expand, or a multipoint constraint), to be handed
    to solve() any number of times."""
    name = "mk_system"
    out = "lsys"
    weight = 1.0

    def gen(self, rng, S):
        b = S.pick(rng, "basis", lambda x: x["kind"] == "cell"
                   and not x.get("composite")
                   and x["ekind"] in ("scalar", "vector"))
        if b is None:
            return None
        A = S.pick(rng, "asm", lambda x: x["typ"] == "bilinear"
                   and x["entry"] != "elemental" and x["basis"] == b
                   and x["vbasis"] == b)
        rhs = S.pick(rng, "asm", lambda x: x["typ"] == "linear"
                     and x["entry"] != "elemental" and x["basis"] == b)
        xv = S.pick(rng, "vec", lambda x: x["basis"] == b and not x["wrong"])
        a = {"basis": ref(b), "how": rng.choice(["mpc", "mpc", "condense"]),
             "shift": rng.choice([1.0, 2.5]), "seed": rng.randrange(1 << 30),
             "g": rng.random() < 0.5, "T": rng.random() < 0.5}
        if A is not None and rng.random() < 0.7:
            a["A"] = ref(A)
        if rhs is not None and rng.random() < 0.7:
            a["b"] = ref(rhs)
        if xv is not None and rng.random() < 0.5:
            a["x"] = ref(xv)
        return a

    def meta(self, a, S):
        return {"basis": a["basis"]["ref"], "how": a["how"]}

    def apply(self, W, a):
        from skfem import condense, BilinearForm
        from skfem.utils import mpc
        import scipy.sparse as sp
        basis = W[a["basis"]["ref"]]
        A = W[a["A"]["ref"]] if "A" in a else \
            BilinearForm(R.g_stiff).assemble(basis)
        b = W[a["b"]["ref"]] if "b" in a else np.ones(A.shape[0])
        K = ((A + A.T.conj()) * 0.5 + a["shift"] * sp.eye(A.shape[0])).tocsr()
        if np.iscomplexobj(K.data) and not np.iscomplexobj(b):
            b = b.astype(K.dtype)
        if a["how"] == "condense":
            kw = {"x": W[a["x"]["ref"]]} if "x" in a else {}
            return list(condense(K, b, D=basis.get_dofs(), **kw))
        n = K.shape[0]
        r = random.Random(a["seed"])
        k = max(1, min(n // 3, 4))
        pick = r.sample(range(n), 2 * k)
        Sd = np.array(sorted(pick[:k]), dtype=np.int32)
        Md = np.array(sorted(pick[k:]), dtype=np.int32)
        kw = {}
        if a["T"]:
            kw["T"] = sp.diags(np.linspace(0.5, 1.5, k)).tocsr()
        if a["g"]:
            kw["g"] = np.linspace(0.1, 0.2, k)
        return list(mpc(K, b, S=Sd, M=Md, **kw))


@register
class SolveSystem(Op):
    name = "solve_system"
    weight = 2.0

    def gen(self, rng, S):
        y = S.pick(rng, "lsys")
        if y is None:
            return None
        a = {"sys": ref(y), "kw": {}}
        s = S.pick(rng, "solver", lambda x: x["kind"] in (
            "direct", "pcg", "krylov-gmres", "cg-py"))
        if s is not None and rng.random() < 0.6:
            a["solver"] = ref(s)
        return a

    def apply(self, W, a):
        from skfem import solve
        kw = dict(a["kw"])
        if "solver" in a:
            kw["solver"] = W[a["solver"]["ref"]]
        return solve(*W[a["sys"]["ref"]], **kw)


@register
class MkSolver(Op):
    name = "mk_solver"
    out = "solver"
    weight = 1.5

    def gen(self, rng, S):
        kind = rng.choice(["direct", "pcg", "krylov-gmres", "eigen",
                           "eigen_sym", "cg-py"])
        kw = {}
        if kind in ("pcg", "krylov-gmres") and rng.random() < 0.5:
            kw["rtol"] = rng.choice([1e-6, 1e-10])
        if kind in ("eigen", "eigen_sym") and rng.random() < 0.5:
            kw["k"] = rng.choice([2, 3])
        return {"kind": kind, "kw": kw}

    def meta(self, a, S):
        return {"kind": a["kind"]}

    def apply(self, W, a):
        from skfem import utils as U
        import scipy.sparse.linalg as spl
        k = a["kind"]
        kw = dict(a["kw"])
        if k == "direct":
            return U.solver_direct_scipy(**kw)
        if k == "pcg":
            return U.solver_iter_pcg(**kw)
        if k == "krylov-gmres":
            return U.solver_iter_krylov(spl.gmres, **kw)
        if k == "eigen":
            return U.solver_eigen_scipy(**kw)
        if k == "eigen_sym":
            return U.solver_eigen_scipy_sym(**kw)
        return U.solver_iter_cg(**kw)


class EigResult:
    def __init__(self, L, X):
        self.L = np.asarray(L)
        self.X = np.asarray(X)


@register
class Solve(Op):
    name = "solve"
    weight = 3.0

    def gen(self, rng, S):
        # a cell basis is enough: the system is taken from the pool when a
        # suitable assembled matrix exists, otherwise assembled here
        b = S.pick(rng, "basis", lambda x: x["kind"] == "cell"
                   and not x.get("composite")
                   and x["ekind"] in ("scalar", "vector", "hdiv", "hcurl"))
        if b is None:
            return None
        A = S.pick(rng, "asm", lambda x: x["typ"] == "bilinear"
                   and x["entry"] != "elemental" and x["basis"] == b
                   and x["vbasis"] == b)
        eig = rng.random() < 0.3
        a = {"basis": ref(b), "eig": eig, "shift": rng.choice([1.0, 2.5])}
        if A is not None and rng.random() < 0.7:
            a["A"] = ref(A)
        if eig:
            M = S.pick(rng, "asm", lambda x: x["typ"] == "bilinear"
                       and x["entry"] != "elemental" and x["basis"] == b
                       and x["vbasis"] == b)
            if M is not None and "A" in a:
                a["M"] = ref(M)
            s = S.pick(rng, "solver", lambda x: x["kind"] in ("eigen",
                                                              "eigen_sym"))
            if s is not None and rng.random() < 0.85:
                a["solver"] = ref(s)
            a["kw"] = {"k": rng.choice([1, 2, 4])} if rng.random() < 0.5 else {}
        else:
            rhs = S.pick(rng, "asm", lambda x: x["typ"] == "linear"
                         and x["entry"] != "elemental" and x["basis"] == b)
            if rhs is None or rng.random() < 0.3:
                rhs = S.pick(rng, "vec", lambda x: x["basis"] == b
                             and not x["wrong"]) or rhs
            if rhs is not None:
                a["b"] = ref(rhs)
            s = S.pick(rng, "solver", lambda x: x["kind"] in (
                "direct", "pcg", "krylov-gmres", "cg-py"))
            a["kw"] = {}
            if s is not None and rng.random() < 0.85:
                a["solver"] = ref(s)
                sk = S.slots[s]["kind"]
                if sk in ("pcg", "krylov-gmres") and rng.random() < 0.5:
                    a["kw"] = {"maxiter": rng.choice([3, 50])}
                if sk == "cg-py" and rng.random() < 0.5:
                    a["kw"] = {"maxiters": rng.choice([3, 50])}
                if sk == "direct" and rng.random() < 0.3:
                    a["kw"] = {"use_umfpack": False}
            a["bc"] = rng.choice(["condense", "enforce", "shifted"])
        return a

    def apply(self, W, a):
        from skfem import solve, condense, enforce, BilinearForm
        basis = W[a["basis"]["ref"]]
        if "A" in a:
            A = W[a["A"]["ref"]]
        else:
            A = BilinearForm(R.g_stiff).assemble(basis)
        kw = dict(a.get("kw", {}))
        if "solver" in a:
            kw["solver"] = W[a["solver"]["ref"]]
        # make the system definite whatever the form was: A + shift * I
        import scipy.sparse as sp
        if a["eig"]:
            # A well-separated spectrum (about 1, 2, 3, ...) built around the
            # pool matrices: ARPACK's random restarts then cannot change the
            # answer beyond rounding, and v0 is fixed.
            M = W[a["M"]["ref"]] if "M" in a else A
            n = A.shape[0]
            As = ((A + A.T.conj()) * 0.5).real
            Ms = ((M + M.T.conj()) * 0.5).real
            sa = max(1.0, abs(As).max())
            sm = max(1.0, abs(Ms).max())
            # (offset 0.37: with an integer spectrum two eigenvalues are
            # equally far from the default shift sigma = 10 and ARPACK may
            # return either one)
            K = sp.diags(np.arange(1.0, n + 1.0) + 0.37) + 1e-3 / sa * As
            Mm = sp.eye(n) + 1e-6 / sm * Ms
            kw["v0"] = np.ones(n)
            L, X = solve(K.tocsr(), Mm.tocsr(), **kw)
            return EigResult(L, X)
        b = W[a["b"]["ref"]] if "b" in a else np.ones(A.shape[0])
        K = ((A + A.T.conj()) * 0.5 + a["shift"] * sp.eye(A.shape[0])).tocsr()
        if np.iscomplexobj(K.data) and not np.iscomplexobj(b):
            b = b.astype(K.dtype)
        if a["bc"] == "condense":
            return solve(*condense(K, b, D=basis.get_dofs()), **kw)
        if a["bc"] == "enforce":
            return solve(*enforce(K, b, D=basis.get_dofs()), **kw)
        return solve(K, b, **kw)
