"""Pristine-interpreter reference server for histsim.

Started as a separate interpreter (its own PYTHONHASHSEED).  It imports
NumPy, SciPy and skfem and then never calls into skfem itself: for every
request it forks a child, the child rebuilds the closure of the requested
operation from recipes, applies the operation once and sends back the
canonical result.  This is the literal "computed first in a fresh
interpreter" of property C15.

Protocol (both directions): 8-byte little-endian length + pickle.
Request  = {"id": ..., "ops": [...], "k": int}
Response = {"id": ..., "res": canon | None, "error": str | None}
"""
import os
import pickle
import select
import signal
import struct
import subprocess
import sys
import time

HERE = os.path.dirname(os.path.abspath(__file__))
VERIF = os.path.dirname(os.path.dirname(HERE))


def _send(fd, obj):
    data = pickle.dumps(obj, protocol=4)
    data = struct.pack("<Q", len(data)) + data
    off = 0
    while off < len(data):
        off += os.write(fd, data[off:off + (1 << 16)])


def _recv(fd, timeout=None):
    deadline = None if timeout is None else time.monotonic() + timeout

    def rd(n):
        buf = b""
        while len(buf) < n:
            if deadline is not None:
                left = deadline - time.monotonic()
                if left <= 0:
                    raise TimeoutError
                r, _, _ = select.select([fd], [], [], left)
                if not r:
                    raise TimeoutError
            c = os.read(fd, n - len(buf))
            if not c:
                raise EOFError
            buf += c
        return buf
    (n,) = struct.unpack("<Q", rd(8))
    return pickle.loads(rd(n))


def serve():
    for v in ("OMP_NUM_THREADS", "OPENBLAS_NUM_THREADS", "MKL_NUM_THREADS"):
        os.environ[v] = "1"
    repo = os.environ.get("VERIF_REPO", "/repo")
    sys.path.insert(0, VERIF)
    sys.path.insert(0, repo)
    sys.dont_write_bytecode = True
    import numpy  # noqa
    import scipy.sparse.linalg  # noqa
    import skfem  # noqa
    import skfem.utils  # noqa
    import meshio  # noqa
    from simfem.histsim import engine  # noqa  (imports only; runs nothing)
    fin, fout = 0, os.dup(1)
    os.dup2(2, 1)   # stray prints go to stderr, never into the protocol
    _send(fout, {"id": "hello", "skfem": skfem.__file__,
                 "hashseed": os.environ.get("PYTHONHASHSEED")})
    while True:
        try:
            req = _recv(fin)
        except EOFError:
            return
        rfd, wfd = os.pipe()
        pid = os.fork()
        if pid == 0:
            code = 0
            try:
                os.close(rfd)
                try:
                    res = engine.fresh_eval(req["ops"], req["k"], pristine=True)
                    out = {"id": req["id"], "res": res, "error": None}
                except BaseException as e:
                    import traceback
                    out = {"id": req["id"], "res": None,
                           "error": "%s: %s\n%s" % (type(e).__name__, e,
                                                    traceback.format_exc())}
                _send(wfd, out)
            except BaseException:
                code = 3
            finally:
                os._exit(code)
        os.close(wfd)
        try:
            out = _recv(rfd, timeout=60)
        except (TimeoutError, EOFError) as e:
            try:
                os.kill(pid, signal.SIGKILL)
            except ProcessLookupError:
                pass
            out = {"id": req["id"], "res": None,
                   "error": "reference child failed: %s" % type(e).__name__}
        os.close(rfd)
        os.waitpid(pid, 0)
        _send(fout, out)


class RefClient:
    """Owned by a pool worker (or a replay process); used by run children."""

    def __init__(self, hashseed="1729"):
        env = dict(os.environ)
        env["PYTHONHASHSEED"] = str(hashseed)
        self.hashseed = str(hashseed)
        self.p = subprocess.Popen([sys.executable, os.path.abspath(__file__)],
                                  stdin=subprocess.PIPE, stdout=subprocess.PIPE,
                                  env=env)
        self.wfd = self.p.stdin.fileno()
        self.rfd = self.p.stdout.fileno()
        hello = _recv(self.rfd, timeout=120)
        assert hello["id"] == "hello", hello
        self.info = hello

    def evaluate(self, rid, ops, k, timeout=90):
        _send(self.wfd, {"id": rid, "ops": ops, "k": k})
        while True:
            out = _recv(self.rfd, timeout=timeout)
            if out["id"] == rid:
                return out
            # stale response of a killed earlier run: discard

    def close(self):
        try:
            self.p.stdin.close()
            self.p.wait(timeout=5)
        except Exception:
            try:
                self.p.kill()
            except Exception:
                pass


if __name__ == "__main__":
    serve()
