"""histsim -- property C15: no hidden state, operands never mutated.
See DESIGN.md section 4 (C15)."""
import gc
import logging
import os
import random

import numpy as np

from ..core import digest, prng
from ..core.shrink import ddmin
from . import canon as C
from . import ops as O
from . import registry as R

NAME = "histsim"
PROPS = {"C15"}
REF = None          # RefClient of this worker (pristine interpreter)
H3_EVERY = 5
RETAIN = 10       # results of the last ops kept alive and re-digested (H5)


# ----------------------------------------------------------------- generation
FOCUS = {
    "solver": {"mk_form": 1.5, "assemble": 3.0, "mk_solver": 1.5, "solve": 6.0,
               "mk_vec": 1.0, "bc_helper": 0.5, "mk_system": 1.0,
               "solve_system": 2.0},
    "bc": {"mk_form": 1.5, "assemble": 3.0, "mk_vec": 2.0, "bc_helper": 6.0,
           "enforce_overwrite": 1.5, "solve": 1.0, "mk_system": 2.0,
           "solve_system": 3.0},
    "mapping": {"mk_mapping": 2.0, "mapping_eval": 8.0, "mesh_tables": 1.0,
                "mesh_refined": 0.5, "mesh_transform": 0.5},
    "rebuild": {"mesh_rebuild": 4.0, "mesh_transform": 2.5, "mesh_refined": 2.0,
                "mesh_tables": 2.0, "mk_basis": 2.0, "mesh_tag": 1.0,
                "mesh_finder": 1.0, "mk_mapping": 1.0, "mapping_eval": 2.0},
    "dofs": {"mk_dofs": 3.0, "mk_basis": 6.0, "mesh_transform": 3.0,
             "mk_mapping": 2.0,
             "basis_observe": 3.0, "basis_get_dofs": 3.0, "mesh_tag": 1.0,
             "dofs_view_ops": 4.0,
             "mk_vec": 1.0, "basis_interpolate": 1.0},
    "elements": {"mk_elem": 2.0, "mk_mesh": 2.0, "mk_basis": 5.0,
                 "elem_lbasis": 3.0, "basis_observe": 2.0, "basis_derive": 1.5,
                 "mesh_refined": 1.0},
    "project": {"mk_vec": 4.0, "basis_misc": 6.0, "basis_interpolate": 1.5,
                "basis_derive": 1.0, "mk_form": 0.5, "assemble": 1.0},
    "points": {"mk_vec": 2.0, "basis_point": 6.0, "mesh_finder": 3.0,
               "mk_points": 2.0, "points_overwrite": 2.5,
               "basis_interpolate": 1.5, "basis_misc": 1.5,
               "mesh_refined": 0.7},
    "meshes": {"mesh_refined": 2.0, "mesh_transform": 2.0, "mesh_restrict": 2.0,
               "mesh_tag": 3.0, "mesh_convert": 1.0, "mesh_tables": 4.0,
               "mesh_selectors": 2.0, "mesh_finder": 1.0,
               "basis_get_dofs": 2.0},
    "assembly": {"mk_form": 2.0, "assemble": 7.0, "mk_vec": 1.5,
                 "basis_derive": 1.0, "basis_observe": 1.0,
                 "mk_composite": 1.5},
}


def generate(rng, tier):
    S = O.GenState()
    nops = rng.choice([8, 12, 16, 24, 32, 40])
    cells = rng.sample(["line", "tri", "quad", "tet", "hex", "wedge"],
                       rng.choice([1, 1, 2]))
    if rng.random() < 0.5 and "tri" not in cells:
        cells[0] = rng.choice(["tri", "quad", "line"])
    # swarm: per-run op weights
    weights = {}
    for name, op in O.OPS.items():
        w = op.weight
        r = rng.random()
        if r < 0.15:
            w = 0.0
        elif r < 0.35:
            w *= 3.0
        weights[name] = w
    # swarm, second level: a third of the runs concentrate on one theme so
    # that multi-step preconditions (a shared solver used several times with
    # different per-call arguments, one mapping evaluated at many equal-size
    # point sets, ...) are met often instead of once in a thousand runs
    focus = None
    if rng.random() < 0.4:
        focus = rng.choice(sorted(FOCUS))
        keep = FOCUS[focus]
        weights = {n: (keep.get(n, 0.0)) for n in weights}
        nops = max(nops, 16)
    for must in ("mk_mesh", "mk_elem", "mk_basis"):
        weights[must] = max(weights[must], O.OPS[must].weight
                            if focus is None else 0.7)
    pristine_all = (tier == "thorough" and rng.random() < 0.34)
    p_pristine = 0.15
    cfg = {"nops": nops, "cells": cells, "pristine_all": pristine_all,
           "perturb": rng.random() < 0.8, "focus": focus}
    ops = []
    # bootstrap: a mesh and an element so that the pool is never empty
    boot = ["mk_mesh", "mk_elem", "mk_mesh", "mk_basis"]
    names = sorted(weights)
    tries = 0
    while len(ops) < nops and tries < nops * 20:
        tries += 1
        if len(ops) < len(boot):
            name = boot[len(ops)]
        else:
            name = rng.choices(names, weights=[weights[n] for n in names])[0]
        op = O.OPS[name]
        if name == "mk_mesh":
            a = None
            for _ in range(10):
                a = op.gen(rng, S)
                if O.meshes.FAMILY_CELL[a["recipe"]["family"]] in cells:
                    break
        else:
            a = op.gen(rng, S)
        if a is None:
            continue
        rec = {"op": name, "args": a,
               "env": {"rng": rng.randrange(1 << 31),
                       "loglevel": rng.choice(["WARNING", "WARNING", "DEBUG",
                                               "INFO"]) if cfg["perturb"] else "WARNING",
                       "gc": rng.random() < 0.1},
               # class- or module-level state is invisible to the in-process
               # reference (same interpreter): point evaluations, where such
               # state has been met (mutant probes-caches-finder-per-class),
               # are compared in the pristine interpreter more often
               "pristine": pristine_all or rng.random() < (
                   0.5 if name in ("basis_point", "mesh_finder")
                   else p_pristine)}
        if op.out is not None:
            rec["out"] = S.new(op.out, op.meta(a, S))
        for cname in getattr(op, "consumes", ()):
            S.retired.add(a[cname]["ref"])
        ops.append(rec)
    if ops:
        ops[-1]["pristine"] = True
    return {"config": cfg, "ops": ops}


# ----------------------------------------------------------------- execution
def _set_env(env, reference):
    lg = logging.getLogger("skfem")
    if reference:
        np.random.seed((env["rng"] * 2654435761 + 12345) % (1 << 32))
        lg.setLevel(logging.WARNING)
    else:
        np.random.seed(env["rng"] % (1 << 32))
        lg.setLevel(getattr(logging, env["loglevel"]))
        if env.get("gc"):
            gc.collect()


class _Quiet:
    """skfem logs warnings for many legitimate situations; keep the run's
    stderr clean without touching the logger *level* (which is part of the
    ambient state being perturbed)."""

    def __enter__(self):
        self.h = logging.NullHandler()
        lg = logging.getLogger("skfem")
        lg.addHandler(self.h)
        self.prop = lg.propagate
        lg.propagate = False
        import warnings
        self.w = warnings.catch_warnings()
        self.w.__enter__()
        warnings.simplefilter("ignore")
        return self

    def __exit__(self, *a):
        lg = logging.getLogger("skfem")
        lg.removeHandler(self.h)
        lg.propagate = self.prop
        self.w.__exit__(*a)


def _apply(op, W, args):
    """(value, canonical result, exception).  Observing the result (reading
    a lazily evaluated view) is part of the operation."""
    R.EPOCH[0] += 1
    try:
        val = O.OPS[op].apply(W, args)
        return val, C.canon(val), None
    except Exception as e:  # API-level failure is a legitimate outcome
        return None, {"raises": type(e).__name__}, e


def creators(ops):
    return {o["out"]: i for i, o in enumerate(ops) if "out" in o}


def fresh_world(ops, k, made=None):
    """Rebuild, from recipes, only the transitive dependencies of op k:
    brand-new objects, each constructed exactly once, touched by nothing
    else.  Returns (world, failure) where failure is the exception of a
    constructor that failed."""
    cre = creators(ops[:k])
    W = {}

    def build(slot):
        if slot in W:
            return None
        i = cre.get(slot)
        if i is None:
            return KeyError(slot)
        o = ops[i]
        for r in O.refs_in(o["args"]):
            e = build(r)
            if e is not None:
                return e
        _set_env(o["env"], reference=True)
        val, _, exc = _apply(o["op"], W, o["args"])
        if exc is not None:
            return exc
        W[slot] = val
        return None

    for r in O.refs_in(ops[k]["args"]):
        e = build(r)
        if e is not None:
            return W, e
    return W, None


def fresh_eval(ops, k, pristine=False):
    """Canonical result of op k applied once to freshly built operands."""
    with _Quiet():
        W, fail = fresh_world(ops, k)
        if fail is not None:
            return {"raises": type(fail).__name__, "in": "operand-construction"}
        _set_env(ops[k]["env"], reference=True)
        _, res, _ = _apply(ops[k]["op"], W, ops[k]["args"])
        return res


def _subject(o, W):
    """What the violating op was about (for the signature)."""
    a = o["args"]
    for key in ("solver",):
        if key in a and a[key]["ref"] in W:
            return "solver"
    for r in O.refs_in(a):
        v = W.get(r)
        if hasattr(v, "elem") and hasattr(v, "mesh") and hasattr(v, "basis"):
            return type(v.elem).__name__
    for r in O.refs_in(a):
        v = W.get(r)
        if v is not None and hasattr(v, "refdom") and hasattr(v, "gbasis"):
            return type(v).__name__
    for r in O.refs_in(a):
        v = W.get(r)
        if type(v).__name__.startswith("Mapping"):
            return type(v).__name__ + ":" + type(v.mesh).__name__
    for r in O.refs_in(a):
        v = W.get(r)
        if hasattr(v, "doflocs") and hasattr(v, "t"):
            return type(v).__name__
    return "-"


def _log_canon(res):
    """Result digest for the event log; ARPACK noise must not enter it."""
    def strip(x):
        if isinstance(x, dict):
            return {k: strip(v) for k, v in x.items() if k != "__approx__"}
        if isinstance(x, list):
            return [strip(v) for v in x]
        return x
    return digest.jdigest(strip(res))


def execute(trace, use_pristine=True):
    global REF
    ops = trace["ops"]
    W = {}
    created = {}         # slot -> digest at creation (H3)
    used = set()         # slots consumed by some earlier op
    stats = {"steps": 0, "faults": {}, "probes": {}, "swarm": {}}
    probes = stats["probes"]
    faults = stats["faults"]
    log = []
    violation = None
    nontrivial = False
    elem_meshes = {}     # elem slot -> set of mesh digests it has been used on
    failed_objs = set()  # slots touched by a failed op
    retained = []        # (op index, op, returned value, digest) of recent results

    def bump(d, k, n=1):
        d[k] = d.get(k, 0) + n

    def viol(cls, k, o, detail):
        return {"class": cls, "at": k,
                "signature": "%s/%s/%s" % (cls, o["op"], _subject(o, W)),
                "detail": dict(detail, op=o["op"], args=o["args"])}

    with _Quiet():
        for k, o in enumerate(ops):
            refs = O.refs_in(o["args"])
            if any(r not in W for r in refs):
                log.append((k, o["op"], "skipped"))
                bump(probes, "op-skipped-missing-operand")
                continue
            stats["steps"] += 1
            warm = [r for r in refs if r in used]
            if warm:
                nontrivial = True
            if any(r in failed_objs for r in refs):
                bump(probes, "op-after-failed-op-on-same-object")
            # ---- pool world
            env = o["env"]
            if env["loglevel"] != "WARNING":
                bump(faults, "ambient-loglevel-" + env["loglevel"])
            bump(faults, "ambient-global-rng-reseeded")
            if env.get("gc"):
                bump(faults, "ambient-gc")
            pre = {r: C.operand_arrays(W[r]) for r in refs}
            pre_v = {r: C.operand_arrays(W[r], canonical=True) for r in refs
                     if C.has_sparse(W[r])}
            _set_env(env, reference=False)
            val, res, exc = _apply(o["op"], W, o["args"])
            if exc is not None:
                bump(faults, "api-failure-" + type(exc).__name__)
                failed_objs.update(refs)
            post = {r: C.operand_arrays(W[r]) for r in refs}
            log.append((k, o["op"], _log_canon(res)))
            # ---- H2 operand immutability
            own = {o["args"][c]["ref"]
                   for c in getattr(O.OPS[o["op"]], "mutates", ())}
            for r in refs:
                if r in own:
                    continue      # overwritten by the caller, on purpose
                if pre[r] != post[r]:
                    cls = "H2-operand-mutated"
                    if r in pre_v and pre_v[r] == C.operand_arrays(
                            W[r], canonical=True):
                        # same matrix, entry for entry; only the order in
                        # which its storage arrays list the entries changed
                        cls = "H2s-sparse-storage-reordered"
                    violation = viol(cls, k, o,
                                     {"operand": r,
                                      "type": type(W[r]).__name__})
                    break
            if violation:
                break
            # ---- H1/H4 in-process fresh reference
            ref_res = fresh_eval(ops, k)
            d = C.compare(res, ref_res)
            if d is not None:
                cls = "H4-failure-parity" if ("raises" in res) != \
                    ("raises" in ref_res) or (isinstance(res, dict)
                                              and isinstance(ref_res, dict)
                                              and res.get("raises") != ref_res.get("raises")) \
                    else "H1-history-dependent"
                violation = viol(cls, k, o, {
                    "first_difference": d, "warm_operands": warm,
                    "pool": _brief(res), "fresh": _brief(ref_res)})
                break
            # ---- H1 pristine interpreter (sampled)
            if use_pristine and o.get("pristine"):
                if REF is None:
                    from .refserver import RefClient
                    REF = RefClient()
                rid = "%d:%d:%d" % (os.getpid(), k, len(ops))
                out = REF.evaluate(rid, ops[:k + 1], k)
                if out["error"] is not None:
                    return {"harness_error": "pristine reference failed: "
                            + out["error"][-1500:]}
                bump(probes, "compared-in-pristine-interpreter")
                d = C.compare(res, out["res"])
                if d is not None:
                    violation = viol("H1p-differs-from-pristine-interpreter",
                                     k, o, {"first_difference": d,
                                            "pool": _brief(res),
                                            "pristine": _brief(out["res"]),
                                            "ref_hashseed": REF.hashseed})
                    break
            # ---- bookkeeping
            if own and exc is None:
                # the caller's own buffer: earlier hand-outs of the same
                # object are expected to show the new values
                retained = [x for x in retained if x[2] is not val]
            if exc is None and val is not None:
                retained.append((k, o["op"], val, _log_canon(res)))
                del retained[:-RETAIN]
            used.update(refs)
            if "out" in o and exc is None:
                W[o["out"]] = val
                created[o["out"]] = C.operand_arrays(val)
            for c in getattr(O.OPS[o["op"]], "consumes", ()):
                W.pop(o["args"][c]["ref"], None)
            _probe(o, W, probes, elem_meshes, bump)
            # ---- H3 action at a distance
            if (k + 1) % H3_EVERY == 0 or k == len(ops) - 1:
                for slot, dg in created.items():
                    if slot in W and dg is not None and \
                            C.operand_arrays(W[slot]) != dg:
                        violation = viol("H3-action-at-a-distance", k, o,
                                         {"object": slot,
                                          "type": type(W[slot]).__name__})
                        break
                if violation:
                    break
                # ---- H5 results handed out earlier do not change later
                for (k0, op0, v0, d0) in retained:
                    try:
                        d1 = _log_canon(C.canon(v0))
                    except Exception as ex:
                        d1 = "raises:" + type(ex).__name__
                    if d1 != d0:
                        # named after the operation that returned the value
                        violation = viol("H5-returned-value-changed-later", k,
                                         ops[k0], {"returned_by_op": k0,
                                                   "noticed_after_op": k,
                                                   "noticed_after": o["op"]})
                        break
                if violation:
                    break
    logging.getLogger("skfem").setLevel(logging.WARNING)
    cfg = trace.get("config", {})
    stats["swarm"] = {"nops": cfg.get("nops"), "cells": "+".join(
        cfg.get("cells", [])), "pristine_all": cfg.get("pristine_all"),
        "perturb": cfg.get("perturb"), "focus": cfg.get("focus")}
    opnames = [o["op"] for o in ops]
    for n in set(opnames):
        bump(probes, "op:" + n, opnames.count(n))
    hist = digest.jdigest([(o["op"], o["args"]) for o in ops])
    keys = {"histories": [hist]}
    if nontrivial:
        keys["nontrivial"] = [hist]
    return {"trace": trace, "violation": violation, "stats": stats,
            "log_digest": digest.jdigest(log), "keys": keys}


def _brief(res):
    s = repr(res)
    return s if len(s) < 400 else s[:400] + "..."


def _probe(o, W, probes, elem_meshes, bump):
    a = o["args"]
    if o["op"] == "mk_basis":
        e, m = a["elem"]["ref"], a["mesh"]["ref"]
        s = elem_meshes.setdefault(e, set())
        s.add(m)
        if len(s) >= 2:
            bump(probes, "element-instance-used-on->=2-meshes")
    if o["op"] == "mapping_eval":
        bump(probes, "mapping-evaluated")
        if a.get("repeat"):
            bump(probes, "same-mapping-two-equal-size-point-sets")
        if a["X"].get("percell"):
            bump(probes, "per-cell-points-on-mapping")
    if o["op"] == "elem_lbasis":
        bump(probes, "element-lbasis-direct")
    if o["op"] == "solve" and "solver" in a:
        bump(probes, "shared-solver-object-used")
        if a.get("kw"):
            bump(probes, "solver-reused-with-per-call-kwargs")
    if o["op"] == "mesh_tables":
        bump(probes, "lazy-tables-touched")


# ----------------------------------------------------------------- engine API
def plan(prop, tier):
    if tier == "thorough":
        return {"runs": 40000, "budget_s": 900, "timeout_s": 240,
                "selfcheck_runs": 12}
    return {"runs": 2800, "budget_s": 80, "timeout_s": 120,
            "selfcheck_runs": 6}


def worker_init():
    global REF
    from .refserver import RefClient
    REF = RefClient()


def worker_fini():
    global REF
    if REF is not None:
        REF.close()
        REF = None


def run(prop, rseed, tier, k):
    rng = prng.pyrng(rseed)
    trace = generate(rng, tier)
    return execute(trace)


def replay(trace):
    return execute(trace)


def trace_len(trace):
    return len(trace["ops"])


def sample_view(trace):
    return trace


def _repair(ops):
    """Drop ops whose operands no longer exist."""
    have = set()
    out = []
    for o in ops:
        if all(r in have for r in O.refs_in(o["args"])):
            out.append(o)
            if "out" in o:
                have.add(o["out"])
    return out


def shrink(trace, violation, exec_iso):
    sig = violation["signature"]
    cfg = trace.get("config", {})

    def test(ops):
        ops = _repair(ops)
        if not ops:
            return False
        out = exec_iso({"config": cfg, "ops": ops})
        return ("harness_error" not in out and out.get("violation") is not None
                and out["violation"]["signature"] == sig)

    ops = trace["ops"][:violation["at"] + 1]
    if not test(ops):
        ops = trace["ops"]
    small, _ = ddmin(ops, test, budget=300)
    small = _repair(small)
    # simplify mesh recipes and environments
    for i, o in enumerate(small):
        cand = None
        if o["op"] == "mk_mesh":
            rec = dict(o["args"]["recipe"], n=1, perm=False, jiggle=0.0)
            if rec != o["args"]["recipe"]:
                cand = dict(o, args={"recipe": rec})
        if cand is not None:
            trial = small[:i] + [cand] + small[i + 1:]
            if test(trial):
                small = trial
    for i, o in enumerate(small):
        if o["env"]["loglevel"] != "WARNING" or o["env"].get("gc"):
            cand = dict(o, env=dict(o["env"], loglevel="WARNING", gc=False))
            trial = small[:i] + [cand] + small[i + 1:]
            if test(trial):
                small = trial
    return {"config": cfg, "ops": small}


def describe(prop):
    return {
        "technique": "deterministic simulation: seeded operation histories "
                     "over a long-lived object pool with ambient-state "
                     "perturbation and API-level failures; reference model = "
                     "the same operation on freshly rebuilt objects "
                     "(in-process and in a pristine forked interpreter under "
                     "another hash seed)",
        "rule": "one evaluation = one seeded history of public-API "
                "operations over a shared pool of mesh/element/mapping/"
                "basis/form/solver objects, every op compared with the same "
                "op on a fresh rebuild; distinct_nontrivial counts distinct "
                "histories (hash of the op list) in which at least one "
                "checked op consumed an object that an earlier op had "
                "already used",
        "simulated_time": "logical steps (operations) only; no timers in the "
                          "system under test",
        "faults_not_applicable": [
            "message loss/duplication/reordering (no network)",
            "partition/heal (no peers)", "crash-restart (no durable state)",
            "clock skew (no clock)", "disk faults (C17's subject)"],
        "components": {
            "real": ["all of skfem reached through the public API (mesh, "
                     "element, mapping, basis, form, utils)", "NumPy/SciPy",
                     "second interpreter with another PYTHONHASHSEED for the "
                     "pristine reference"],
            "stubbed": ["nothing; the simulator owns the order of operations "
                        "and the ambient state (global NumPy RNG, skfem "
                        "logger level, gc, hash seed)"]},
        "assumptions": [
            "oracle is relative: warm object == cold object; a defect present "
            "on both paths is invisible here by design",
            "ARPACK eigen-solutions are compared by count/shape exactly and "
            "eigenvalues to 1e-7 on a well-separated spectrum with fixed v0 (its internal RNG makes them not bit "
            "reproducible); everything else is compared bit for bit",
            "'arrays of operands' is read literally: re-keyed containers are "
            "not flagged"],
    }
