"""Canonical forms of scikit-fem values for exact comparison."""
import numpy as np

from ..core import digest


def _oriented(a):
    ori = getattr(a, "ori", None)
    return None if ori is None else digest.arr(np.asarray(ori))


def arr(a):
    a = np.asarray(a) if not isinstance(a, np.ndarray) else a
    d = {"a": digest.arr(np.asarray(a)), "shape": list(a.shape),
         "dtype": str(a.dtype)}
    o = _oriented(a)
    if o is not None:
        d["ori"] = o
    return d


def tags(d):
    if d is None:
        return None
    return {str(k): arr(v) for k, v in d.items()}


def mesh(m):
    return {"kind": "mesh", "cls": type(m).__name__, "p": arr(m.p),
            "t": arr(m.t), "b": tags(m.boundaries), "s": tags(m.subdomains),
            "affine": bool(m.affine), "sort_t": bool(m.sort_t)}


def field(f):
    return {"kind": "field",
            "parts": [None if c is None else arr(c) for c in f.astuple]}


def basis(b):
    if type(b).__name__ == "CompositeBasis":
        return {"kind": "basis", "cls": "CompositeBasis", "N": int(b.N),
                "nelems": int(b.nelems), "X": arr(b.X), "W": arr(b.W),
                "dx": arr(b.dx), "element_dofs": arr(b.element_dofs),
                "basis": [[field(f) for f in tup] for tup in b.basis],
                "parts": [basis(x) for x in b.bases]}
    out = {"kind": "basis", "cls": type(b).__name__, "N": int(b.N),
           "Nbfun": int(b.Nbfun), "nelems": int(b.nelems),
           "X": arr(b.X), "W": arr(b.W), "dx": arr(b.dx),
           "element_dofs": arr(b.element_dofs),
           "basis": [[field(f) for f in tup] for tup in b.basis]}
    if hasattr(b, "doflocs"):
        out["doflocs"] = arr(b.doflocs)
    if getattr(b, "tind", None) is not None:
        out["tind"] = arr(b.tind)
    if hasattr(b, "find"):
        out["find"] = arr(b.find)
    if hasattr(b, "normals"):
        out["normals"] = field(b.normals)
    return out


def dofsview(d):
    out = {"kind": "dofs", "flat": arr(d.flatten())}
    for part in ("nodal", "facet", "edge", "interior"):
        try:
            dd = getattr(d, part)
            out[part] = {str(k): arr(v) for k, v in dd.items()}
        except Exception as e:  # pragma: no cover
            out[part] = type(e).__name__
    return out


def canon(v, depth=0):
    from skfem.mesh import Mesh
    from skfem.assembly.basis import AbstractBasis
    from skfem.assembly.dofs import DofsView
    from skfem.assembly.form.coo_data import COOData
    from skfem.element import DiscreteField, Element
    import scipy.sparse as sp
    if depth > 10:
        return "deep"
    if v is None or isinstance(v, (bool, int, str)):
        return v
    if isinstance(v, float):
        return {"f": repr(v)}
    if isinstance(v, complex):
        return {"c": repr(v)}
    if isinstance(v, np.generic):
        return {"np": repr(v.item()), "dtype": str(v.dtype)}
    if type(v).__name__ == "EigResult":
        L = np.sort_complex(np.asarray(v.L).astype(complex))
        return {"kind": "eig", "n": int(len(L)), "xshape": list(v.X.shape),
                "__approx__": [float(x.real) for x in L]
                + [float(x.imag) for x in L]}
    if isinstance(v, DiscreteField):
        return field(v)
    if isinstance(v, np.ndarray):
        return arr(v)
    if sp.issparse(v):
        return digest.sparse_canon(v)
    if isinstance(v, Mesh):
        return mesh(v)
    if isinstance(v, AbstractBasis):
        return basis(v)
    if isinstance(v, DofsView):
        return dofsview(v)
    if isinstance(v, COOData):
        return {"kind": "coo", "indices": arr(v.indices), "data": arr(v.data),
                "shape": list(v.shape), "local_shape":
                None if v.local_shape is None else list(v.local_shape)}
    if isinstance(v, dict):
        return {"d": {str(k): canon(x, depth + 1) for k, x in v.items()}}
    if isinstance(v, (list, tuple)):
        return [canon(x, depth + 1) for x in v]
    if isinstance(v, (set, frozenset)):
        return {"set": sorted(str(x) for x in v)}
    if isinstance(v, Element):
        return {"kind": "elem", "cls": type(v).__name__}
    if type(v).__name__ == "Dofs":
        return {"kind": "dofsobj", "N": int(v.N),
                "element_dofs": arr(v.element_dofs)}
    if isinstance(v, BaseException):
        return {"raises": type(v).__name__}
    return {"obj": type(v).__name__}


def compare(a, b, path=""):
    """First differing path or None; '__approx__' lists compare to 1e-7."""
    if isinstance(a, dict) and isinstance(b, dict) and "__approx__" in a \
            and "__approx__" in b:
        x, y = a["__approx__"], b["__approx__"]
        if len(x) != len(y):
            return path + "/__approx__/len"
        for i, (p, q) in enumerate(zip(x, y)):
            if abs(p - q) > 1e-7 * max(1.0, abs(p), abs(q)):
                return path + "/__approx__/%d" % i
        ra = {k: v for k, v in a.items() if k != "__approx__"}
        rb = {k: v for k, v in b.items() if k != "__approx__"}
        return digest.first_diff(ra, rb, path)
    if type(a) is not type(b):
        return path or "/"
    if isinstance(a, dict):
        for k in sorted(set(a) | set(b), key=str):
            if k not in a or k not in b:
                return "%s/%s" % (path, k)
            d = compare(a[k], b[k], "%s/%s" % (path, k))
            if d:
                return d
        return None
    if isinstance(a, list):
        if len(a) != len(b):
            return path + "/len"
        for i, (x, y) in enumerate(zip(a, b)):
            d = compare(x, y, "%s/%d" % (path, i))
            if d:
                return d
        return None
    return None if a == b else (path or "/")


def _ix(x):
    return "slice:" + repr(x) if isinstance(x, slice) else arr(np.asarray(x))


def dofsview_state(d):
    """Everything a DofsView holds or refers to (for immutability checks)."""
    out = {f: _ix(getattr(d, f)) for f in (
        "nodal_ix", "facet_ix", "edge_ix", "interior_ix", "nodal_rows",
        "facet_rows", "edge_rows", "interior_rows")}
    for f in ("nodal_dofs", "facet_dofs", "edge_dofs", "interior_dofs",
              "element_dofs"):
        out["obj." + f] = arr(getattr(d.obj, f))
    if d.doflocs is not None:
        out["doflocs"] = arr(d.doflocs)
    return out


def has_sparse(v, depth=0):
    import scipy.sparse as sp
    if sp.issparse(v):
        return True
    if isinstance(v, (list, tuple)) and depth < 3:
        return any(has_sparse(x, depth + 1) for x in v)
    return False


def operand_arrays(v, depth=0, canonical=False):
    """Digest of the arrays of an operand (for the immutability checks).
    canonical=True: sparse matrices by value (sorted, duplicates summed)
    instead of by their raw storage arrays."""
    from skfem.mesh import Mesh
    from skfem.assembly.basis import AbstractBasis
    from skfem.assembly.form.coo_data import COOData
    import scipy.sparse as sp
    if isinstance(v, Mesh):
        return digest.jdigest(mesh(v))
    if isinstance(v, AbstractBasis):
        if type(v).__name__ == "CompositeBasis":
            return digest.jdigest([basis(v)] + [mesh(x.mesh) for x in v.bases])
        return digest.jdigest([basis(v), mesh(v.mesh)])
    if isinstance(v, np.ndarray):
        return digest.jdigest(arr(v))
    if type(v).__name__ == "DofsView":
        return digest.jdigest(dofsview_state(v))
    if isinstance(v, dict) and v and all(
            type(x).__name__ == "DofsView" for x in v.values()):
        return digest.jdigest({str(k): dofsview_state(x)
                               for k, x in v.items()})
    if sp.issparse(v):
        if hasattr(v, "indptr") and not canonical:
            return digest.jdigest(digest.sparse_raw(v))
        return digest.jdigest(digest.sparse_canon(v))
    if isinstance(v, COOData):
        return digest.jdigest(canon(v))
    if isinstance(v, (list, tuple)) and depth < 3:
        return digest.hbytes(*[operand_arrays(x, depth + 1, canonical) or "-"
                               for x in v])
    if type(v).__name__ == "MappingAffine" or \
            type(v).__name__ == "MappingIsoparametric":
        return digest.jdigest(mesh(v.mesh))
    return None
