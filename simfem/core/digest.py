"""Canonical byte digests of the values the oracles compare.

A digest is a short hex string.  ``canon`` turns a value into a nested,
JSON-able structure of digests and small literals so that two results can be
compared exactly and the first difference can be named.
"""
import hashlib

import numpy as np


def hbytes(*parts) -> str:
    h = hashlib.sha256()
    for p in parts:
        if isinstance(p, str):
            p = p.encode()
        h.update(p)
        h.update(b"\x00")
    return h.hexdigest()[:20]


def arr(a) -> str:
    """Digest of an ndarray: dtype, shape and C-order bytes."""
    a = np.asarray(a)
    if a.dtype == object:
        return hbytes("obj", repr(a.shape), repr(a.tolist()))
    b = np.ascontiguousarray(a)
    return hbytes(str(b.dtype), repr(b.shape), b.tobytes())


def sparse_canon(m):
    """Duplicate-summed, sorted CSR triplets of a scipy sparse matrix."""
    c = m.tocsr().copy()
    c.sum_duplicates()
    c.sort_indices()
    return {
        "kind": "sparse",
        "shape": [int(s) for s in c.shape],
        "dtype": str(c.dtype),
        "indptr": arr(c.indptr.astype(np.int64)),
        "indices": arr(c.indices.astype(np.int64)),
        "data": arr(c.data),
        "nnz": int(c.nnz),
    }


def sparse_raw(m):
    """Bit-level identity of a CSR matrix as returned (no re-sorting)."""
    return {
        "kind": "csr-raw",
        "shape": [int(s) for s in m.shape],
        "dtype": str(m.dtype),
        "indptr": arr(m.indptr),
        "indices": arr(m.indices),
        "data": arr(m.data),
    }


def jdigest(obj) -> str:
    """Digest of a JSON-able structure."""
    import json
    return hbytes(json.dumps(obj, sort_keys=True, default=str))


def first_diff(a, b, path=""):
    """Path of the first difference between two canon structures, or None."""
    if type(a) is not type(b):
        return path or "/"
    if isinstance(a, dict):
        for k in sorted(set(a) | set(b), key=str):
            if k not in a or k not in b:
                return f"{path}/{k}"
            d = first_diff(a[k], b[k], f"{path}/{k}")
            if d:
                return d
        return None
    if isinstance(a, (list, tuple)):
        if len(a) != len(b):
            return f"{path}/len"
        for i, (x, y) in enumerate(zip(a, b)):
            d = first_diff(x, y, f"{path}/{i}")
            if d:
                return d
        return None
    return None if a == b else (path or "/")


def deep(obj, _depth=0):
    """Digest of everything array-like reachable from a value: ndarrays,
    DiscreteField (all attribute arrays), tuples/lists/dicts, scalars."""
    if _depth > 8:
        return "deep"
    if obj is None:
        return "None"
    if hasattr(obj, "astuple") and isinstance(obj, np.ndarray):
        parts = [arr(np.asarray(c)) if c is not None else "None"
                 for c in obj.astuple]
        return hbytes("DF", *parts)
    if isinstance(obj, np.ndarray):
        return arr(obj)
    if isinstance(obj, dict):
        return hbytes("dict", *[hbytes(str(k), deep(obj[k], _depth + 1))
                                for k in sorted(obj, key=str)])
    if isinstance(obj, (list, tuple)):
        return hbytes("seq", *[deep(x, _depth + 1) for x in obj])
    if isinstance(obj, (int, float, complex, str, bool, np.generic)):
        return hbytes("s", repr(obj))
    try:
        import scipy.sparse as sp
        if sp.issparse(obj):
            return jdigest(sparse_raw(obj.tocsr()))
    except Exception:
        pass
    return hbytes("o", type(obj).__name__)
