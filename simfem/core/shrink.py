"""Delta debugging over lists (ddmin), budgeted."""


def ddmin(items, test, budget=400):
    """Smallest sublist (1-minimal up to budget) of ``items`` for which
    ``test(sublist)`` is true.  ``test(items)`` is assumed true.
    Returns (sublist, evaluations)."""
    evals = 0
    items = list(items)
    n = 2
    while len(items) >= 1 and evals < budget:
        if len(items) == 1:
            evals += 1
            if test([]):
                items = []
            break
        chunk = max(1, len(items) // n)
        subsets = [items[i:i + chunk] for i in range(0, len(items), chunk)]
        reduced = False
        # try complements (drop one chunk)
        for i in range(len(subsets)):
            if evals >= budget:
                break
            cand = [x for j, s in enumerate(subsets) if j != i for x in s]
            evals += 1
            if test(cand):
                items = cand
                n = max(n - 1, 2)
                reduced = True
                break
        if not reduced:
            if chunk == 1:
                break
            n = min(len(items), n * 2)
    return items, evals
