"""Fork pool with per-run isolation.

The parent forks ``W`` workers.  A worker never executes code under test:
it is a *zygote*.  For every run index it forks a child, the child executes
the run and pickles the outcome into a pipe, the worker forwards it to the
parent.  Consequences:

* a run starts from an interpreter that has imported NumPy/SciPy/skfem but in
  which no skfem function has ever been called, so results cannot depend on
  which runs happened before it in the same worker, nor on the worker count;
* a hung or crashed run is killed/observed by the worker and reported as a
  harness error -- it can never become a pass;
* real threads created by a run die with its process.

Run indices are dealt round-robin (k = w, w+W, ...).  Workers stop launching
new runs once the soft deadline has passed.
"""
import os
import pickle
import select
import signal
import struct
import sys
import time
import traceback


def _read_exact(fd, n, deadline=None):
    buf = b""
    while len(buf) < n:
        if deadline is not None:
            left = deadline - time.monotonic()
            if left <= 0:
                return None
            r, _, _ = select.select([fd], [], [], left)
            if not r:
                return None
        chunk = os.read(fd, n - len(buf))
        if not chunk:
            return buf
        buf += chunk
    return buf


def run_isolated(fn, arg, timeout_s):
    """Run ``fn(arg)`` in a forked child; return its result.

    Returns ``{"harness_error": ...}`` if the child hangs, dies or raises.
    """
    rfd, wfd = os.pipe()
    sys.stdout.flush()
    sys.stderr.flush()
    pid = os.fork()
    if pid == 0:
        # child
        code = 0
        try:
            os.close(rfd)
            try:
                import faulthandler
                faulthandler.dump_traceback_later(max(1.0, timeout_s - 0.5),
                                                  exit=False)
            except Exception:
                pass
            try:
                res = fn(arg)
            except BaseException as e:  # harness bug inside the run
                res = {"harness_error": "exception in run: %s: %s" % (
                    type(e).__name__, e),
                    "traceback": traceback.format_exc()}
            data = pickle.dumps(res, protocol=4)
            os.write(wfd, struct.pack("<Q", len(data)))
            off = 0
            while off < len(data):
                off += os.write(wfd, data[off:off + (1 << 16)])
        except BaseException:
            code = 3
        finally:
            os._exit(code)
    os.close(wfd)
    deadline = time.monotonic() + timeout_s
    res = None
    try:
        hdr = _read_exact(rfd, 8, deadline)
        if hdr is None:
            res = {"harness_error": "timeout after %.0fs" % timeout_s}
        elif len(hdr) < 8:
            res = None  # died; status below
        else:
            (n,) = struct.unpack("<Q", hdr)
            body = _read_exact(rfd, n, deadline)
            if body is None:
                res = {"harness_error": "timeout after %.0fs" % timeout_s}
            elif len(body) < n:
                res = None
            else:
                res = pickle.loads(body)
    finally:
        os.close(rfd)
    if res is not None and "harness_error" in res and \
            str(res["harness_error"]).startswith("timeout"):
        try:
            os.kill(pid, signal.SIGKILL)
        except ProcessLookupError:
            pass
    _, status = os.waitpid(pid, 0)
    if res is None:
        res = {"harness_error": "run process died (wait status %d)" % status}
    return res


def _worker(w, W, total, fn, wfd, timeout_s, soft_deadline, init, fini):
    # One core per worker: a run's simulated threads hand the baton to each
    # other on the same core (no cross-core wake-ups), and runs do not
    # migrate.  Purely a throughput measure; results do not depend on it.
    try:
        cpus = sorted(os.sched_getaffinity(0))
        os.sched_setaffinity(0, {cpus[w % len(cpus)]})
    except Exception:
        pass
    if init is not None:
        init()
    k = w
    while k < total:
        if time.monotonic() > soft_deadline:
            break
        res = run_isolated(fn, k, timeout_s)
        if "harness_error" in res and init is not None:
            # a killed run may have left the worker's helpers mid-protocol
            try:
                if fini is not None:
                    fini()
                init()
            except Exception:
                pass
        data = pickle.dumps((k, res), protocol=4)
        os.write(wfd, struct.pack("<Q", len(data)))
        off = 0
        while off < len(data):
            off += os.write(wfd, data[off:off + (1 << 16)])
        k += W
    if fini is not None:
        fini()
    os.close(wfd)


def run_pool(fn, total, workers, timeout_s, soft_budget_s, on_result=None,
             worker_init=None, worker_fini=None):
    """Run ``fn(k)`` for k in range(total), isolated, on ``workers`` processes.

    Returns dict k -> result for every run that was launched.
    """
    workers = max(1, min(workers, total))
    soft_deadline = time.monotonic() + soft_budget_s
    pipes = {}
    pids = []
    sys.stdout.flush()
    sys.stderr.flush()
    for w in range(workers):
        rfd, wfd = os.pipe()
        pid = os.fork()
        if pid == 0:
            code = 0
            try:
                os.close(rfd)
                for other in pipes:
                    os.close(other)
                _worker(w, workers, total, fn, wfd, timeout_s, soft_deadline,
                        worker_init, worker_fini)
            except BaseException:
                traceback.print_exc()
                code = 4
            finally:
                os._exit(code)
        os.close(wfd)
        pipes[rfd] = bytearray()
        pids.append(pid)
    results = {}
    open_fds = set(pipes)
    while open_fds:
        r, _, _ = select.select(list(open_fds), [], [], 1.0)
        for fd in r:
            chunk = os.read(fd, 1 << 20)
            if not chunk:
                open_fds.discard(fd)
                os.close(fd)
                continue
            buf = pipes[fd]
            buf += chunk
            while len(buf) >= 8:
                (n,) = struct.unpack("<Q", bytes(buf[:8]))
                if len(buf) < 8 + n:
                    break
                k, res = pickle.loads(bytes(buf[8:8 + n]))
                del buf[:8 + n]
                results[k] = res
                if on_result is not None:
                    on_result(k, res)
    worker_failures = 0
    for pid in pids:
        _, status = os.waitpid(pid, 0)
        if status != 0:
            worker_failures += 1
    if worker_failures:
        results[-1] = {"harness_error":
                       "%d pool worker(s) died" % worker_failures}
    return results
