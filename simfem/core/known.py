"""Known findings: read-only at run time."""
import json
import os

HERE = os.path.dirname(os.path.dirname(os.path.dirname(os.path.abspath(__file__))))
PATH = os.path.join(HERE, "known_findings.jsonl")


def load(prop=None):
    out = []
    if not os.path.exists(PATH):
        return out
    with open(PATH) as f:
        for line in f:
            line = line.strip()
            if not line or line.startswith("#"):
                continue
            d = json.loads(line)
            if prop is None or d.get("property") == prop:
                out.append(d)
    return out


def known_signatures(prop):
    """signature -> entry, only for status == 'known' (fixed suppresses nothing)."""
    return {d["signature"]: d for d in load(prop) if d.get("status") == "known"}
