"""Batch driver shared by all engines.

An engine is a module (or object) with

    PROPS                     set of property ids it serves
    plan(prop, tier)          -> {"runs", "budget_s", "timeout_s", "workers"?}
    run(prop, rseed, tier, k) -> outcome      (executed in an isolated child)
    replay(trace)             -> outcome      (executed in an isolated child)
    shrink(trace, violation, execute) -> trace   (parent; execute(trace)->outcome)
    describe(prop)            -> {"rule", "components", "faults_not_applicable",
                                  "assumptions", "simulated_time", "technique"}

An outcome is a dict

    {"trace": ..., "violation": None | {"class", "at", "detail", "signature"},
     "stats": {"steps": int, "faults": {kind: n}, "probes": {name: n},
               "swarm": {knob: value}},
     "log_digest": hex, "keys": {setname: [hex, ...]}}

Exit codes: 0 held, 1 violation (with VIOLATION line), 2 harness error.
"""
import json
import os
import statistics
import subprocess
import sys
import time
from collections import Counter, defaultdict

from . import known, pool, prng

VERIF = os.path.dirname(os.path.dirname(os.path.dirname(os.path.abspath(__file__))))
N_SAMPLES = 3
MAX_SHRINK_SIGNATURES = 6


def _jsonable(o):
    import numpy as np
    if isinstance(o, dict):
        return {str(k): _jsonable(v) for k, v in o.items()}
    if isinstance(o, (list, tuple)):
        return [_jsonable(v) for v in o]
    if isinstance(o, (np.integer,)):
        return int(o)
    if isinstance(o, (np.floating,)):
        return float(o)
    if isinstance(o, np.ndarray):
        return o.tolist()
    if isinstance(o, (str, int, float, bool)) or o is None:
        return o
    return repr(o)


def write_json(path, obj):
    os.makedirs(os.path.dirname(path), exist_ok=True)
    tmp = path + ".tmp%d" % os.getpid()
    with open(tmp, "w") as f:
        json.dump(_jsonable(obj), f, indent=1, sort_keys=True)
        f.write("\n")
    os.replace(tmp, path)


def validate_evidence(ev):
    """Minimal structural validation mirroring EVIDENCE.schema.json for the
    'exploration' level (the only level used here)."""
    for k in ("property_id", "tier", "seed", "level", "coverage", "wall_s"):
        assert k in ev, "evidence lacks %s" % k
    assert ev["tier"] in ("quick", "thorough")
    assert isinstance(ev["seed"], int)
    c = ev["coverage"]
    assert isinstance(c["evaluations"], int) and c["evaluations"] >= 1
    assert isinstance(c["distinct_nontrivial"], int)
    assert c["distinct_nontrivial"] >= 2, "distinct_nontrivial < 2"
    assert isinstance(c["rule"], str)
    assert isinstance(c["samples"], list) and len(c["samples"]) >= 1
    assert isinstance(ev["wall_s"], (int, float))


class Aggregate:
    def __init__(self):
        self.runs = 0
        self.steps = []
        self.faults = Counter()
        self.probes = Counter()
        self.swarm = defaultdict(Counter)
        self.keys = defaultdict(set)
        self.samples = []
        self.violations = {}       # signature -> (k, outcome)
        self.violation_runs = 0
        self.harness_errors = []
        self.digests = {}

    sample_view = staticmethod(lambda tr: tr)

    def add(self, k, out):
        if "harness_error" in out:
            self.harness_errors.append((k, out["harness_error"],
                                        out.get("traceback", "")))
            return
        self.runs += 1
        st = out.get("stats", {})
        self.steps.append(int(st.get("steps", 0)))
        self.faults.update(st.get("faults", {}))
        self.probes.update(st.get("probes", {}))
        for knob, val in st.get("swarm", {}).items():
            self.swarm[knob][str(val)] += 1
        for name, vals in out.get("keys", {}).items():
            self.keys[name].update(vals)
        self.digests[k] = out.get("log_digest")
        if out.get("trace") is not None and len(self.samples) < N_SAMPLES \
                and out.get("violation") is None:
            self.samples.append({"run_index": k,
                                 "trace": self.sample_view(out["trace"])})
        v = out.get("violation")
        if v is not None:
            self.violation_runs += 1
            sig = v["signature"]
            if sig not in self.violations or k < self.violations[sig][0]:
                self.violations[sig] = (k, out)


def _replay_path(prop, sig, seed, k):
    safe = "".join(c if c.isalnum() or c in "-_." else "_" for c in sig)[:80]
    return os.path.join(VERIF, "replays", prop,
                        "%s-seed%d-run%d.json" % (safe, seed, k))


def verify_replay_fresh(prop, path, signature):
    """Replay in a fresh interpreter; must reproduce the same signature."""
    cmd = [sys.executable, os.path.join(VERIF, "check.py"), prop,
           "--replay", path, "--no-evidence"]
    env = dict(os.environ)
    try:
        p = subprocess.run(cmd, capture_output=True, text=True, timeout=600,
                           env=env)
    except subprocess.TimeoutExpired:
        return False, "replay timed out"
    ok = (p.returncode == 1 and ("signature=%s" % signature) in p.stdout)
    return ok, (p.stdout[-2000:] + p.stderr[-2000:])


def run_check(engine, prop, tier, seed, runs=None, budget_s=None,
              workers=None, evidence=True, selfcheck=True, quiet=False,
              dump_digests=None):
    t0 = time.monotonic()
    plan = engine.plan(prop, tier)
    nruns = int(runs if runs is not None else plan["runs"])
    budget = float(budget_s if budget_s is not None else plan["budget_s"])
    timeout_s = float(plan.get("timeout_s", 60))
    W = int(workers if workers is not None
            else plan.get("workers", os.cpu_count() or 4))
    print("check property=%s engine=%s tier=%s VERIF_SEED=%d runs<=%d "
          "budget=%.0fs workers=%d repo=%s" % (
              prop, engine.NAME, tier, seed, nruns, budget, W,
              os.environ.get("VERIF_REPO", "/repo")), flush=True)

    include_trace_below = N_SAMPLES * 4

    def one(k):
        r = prng.run_seed(seed, prop, k)
        out = engine.run(prop, r, tier, k)
        if out.get("violation") is None and k >= include_trace_below:
            out["trace"] = None
        out["run_seed"] = r
        return out

    agg = Aggregate()
    if hasattr(engine, "sample_view"):
        agg.sample_view = engine.sample_view
    res = pool.run_pool(one, nruns, W, timeout_s, budget,
                        worker_init=getattr(engine, "worker_init", None),
                        worker_fini=getattr(engine, "worker_fini", None))
    for k in sorted(res):
        agg.add(k, res[k])
    t_batch = time.monotonic() - t0
    if dump_digests:
        write_json(dump_digests, {str(k): v for k, v in agg.digests.items()})

    # ---- determinism self-check (small slice, fresh interpreter, other hash seed)
    sc = {"seeds": 0, "mismatches": 0, "skipped": not selfcheck}
    if selfcheck and agg.runs and not agg.harness_errors:
        ks = [k for k in sorted(agg.digests)][:plan.get("selfcheck_runs", 6)]
        env = dict(os.environ)
        env["PYTHONHASHSEED"] = "987654"
        cmd = [sys.executable, os.path.join(VERIF, "check.py"), prop,
               "--tier", tier, "--seed", str(seed),
               "--digests", ",".join(map(str, ks))]
        try:
            p = subprocess.run(cmd, capture_output=True, text=True,
                               timeout=300, env=env)
            line = [l for l in p.stdout.splitlines()
                    if l.startswith("DIGESTS ")]
            got = json.loads(line[-1][8:]) if line else {}
        except Exception as e:  # pragma: no cover
            got = {}
            agg.harness_errors.append((-2, "selfcheck failed to run: %r" % e, ""))
        sc["seeds"] = len(ks)
        for k in ks:
            if got.get(str(k)) != agg.digests[k]:
                sc["mismatches"] += 1
        if sc["mismatches"]:
            agg.harness_errors.append(
                (-2, "determinism self-check: %d of %d runs gave a different "
                 "event-log digest in a fresh interpreter under another "
                 "PYTHONHASHSEED" % (sc["mismatches"], len(ks)), ""))

    # ---- violations: classify, shrink, write replay, verify
    knowns = known.known_signatures(prop)
    reported = []
    known_hit = []
    for sig in sorted(agg.violations, key=lambda s: agg.violations[s][0]):
        k, out = agg.violations[sig]
        if sig in knowns:
            known_hit.append(sig)
            print("KNOWN-FINDING: property=%s %s [%s]" % (
                prop, knowns[sig].get("what", ""), sig), flush=True)
            continue
        if len(reported) >= MAX_SHRINK_SIGNATURES:
            continue
        trace = out["trace"]
        viol = out["violation"]

        def execute(tr):
            return pool.run_isolated(engine.replay, tr, timeout_s * 2)

        orig_len = engine.trace_len(trace)
        try:
            small = engine.shrink(trace, viol, execute)
            o2 = execute(small)
            if o2.get("violation") is None or \
                    o2["violation"]["signature"] != sig:
                small, o2 = trace, execute(trace)
        except Exception as e:  # shrinker trouble must not hide the violation
            print("note: shrinking failed (%r); reporting unminimised" % e)
            small, o2 = trace, execute(trace)
        if o2.get("violation") is None or o2["violation"]["signature"] != sig:
            agg.harness_errors.append(
                (k, "violation %s of run %d did not reproduce on in-process "
                 "replay" % (sig, k), ""))
            continue
        small = o2["trace"] if o2.get("trace") is not None else small
        rp = {
            "format": 1, "engine": engine.NAME, "property": prop,
            "verif_seed": seed, "run_index": k,
            "run_seed": out.get("run_seed"),
            "repo": os.environ.get("VERIF_REPO", "/repo"),
            "trace": small, "violation": o2["violation"],
            "minimised": True, "original_len": orig_len,
            "minimised_len": engine.trace_len(small),
        }
        path = _replay_path(prop, sig, seed, k)
        write_json(path, rp)
        ok, log = verify_replay_fresh(prop, path, sig)
        if not ok:
            agg.harness_errors.append(
                (k, "replay file %s did not reproduce %s in a fresh process"
                 % (path, sig), log))
            continue
        reported.append((sig, path, o2["violation"]))
        print("VIOLATION property=%s replay=%s signature=%s class=%s" % (
            prop, path, sig, o2["violation"]["class"]), flush=True)
        print("  detail: %s" % json.dumps(_jsonable(o2["violation"].get(
            "detail", {})))[:1500], flush=True)

    wall = time.monotonic() - t0
    desc = engine.describe(prop)
    nontrivial = len(agg.keys.get("nontrivial", ()))
    if evidence and agg.runs:
        ev = {
            "property_id": prop, "tier": tier, "seed": int(seed),
            "level": "exploration", "wall_s": round(wall, 3),
            "violations": len(reported),
            "coverage": {
                "evaluations": agg.runs,
                "distinct_nontrivial": nontrivial,
                "rule": desc["rule"],
                "samples": agg.samples or [{"note": "no clean sample kept"}],
                "runs_requested": nruns,
                "budget_exhausted": agg.runs < nruns,
                "runs_per_hour": int(agg.runs / max(t_batch, 1e-9) * 3600),
                "steps": int(sum(agg.steps)),
                "steps_per_run": {
                    "min": min(agg.steps), "max": max(agg.steps),
                    "median": int(statistics.median(agg.steps))},
                "simulated_time": desc.get("simulated_time", ""),
                "faults_fired": dict(agg.faults),
                "faults_not_applicable": desc.get("faults_not_applicable", []),
                "reach_probes": dict(agg.probes),
                "distinct": {n: len(v) for n, v in agg.keys.items()},
                "swarm": {k: dict(v) for k, v in agg.swarm.items()},
                "components": desc.get("components", {}),
                "violating_runs": agg.violation_runs,
                "known_findings_hit": known_hit,
                "determinism_selfcheck": sc,
                "harness_errors": len(agg.harness_errors),
                "workers": W,
                "technique": desc.get("technique", ""),
            },
            "assumptions": desc.get("assumptions", []),
        }
        validate_evidence(ev)
        write_json(os.path.join(VERIF, "evidence", prop + ".json"), ev)

    if not quiet:
        print("summary property=%s runs=%d steps=%d distinct_nontrivial=%d "
              "violating_runs=%d reported=%d known=%d harness_errors=%d "
              "wall=%.1fs" % (prop, agg.runs, sum(agg.steps), nontrivial,
                              agg.violation_runs, len(reported),
                              len(known_hit), len(agg.harness_errors), wall),
              flush=True)
    for k, msg, tb in agg.harness_errors[:5]:
        print("HARNESS-ERROR property=%s run=%s %s" % (prop, k, msg))
        if tb:
            print(tb[-3000:])
    if reported:
        return 1
    if agg.harness_errors:
        return 2
    if agg.runs == 0:
        print("HARNESS-ERROR property=%s no run completed" % prop)
        return 2
    return 0


def run_replay(engine, prop, path):
    with open(path) as f:
        rp = json.load(f)
    assert rp["property"] == prop, "replay is for %s" % rp["property"]
    out = pool.run_isolated(engine.replay, rp["trace"], 600)
    if "harness_error" in out:
        print("HARNESS-ERROR property=%s replay %s: %s" % (
            prop, path, out["harness_error"]))
        print(out.get("traceback", ""))
        return 2
    v = out.get("violation")
    want = rp.get("violation") or {}
    if v is None:
        print("replay property=%s: no violation (recorded: %s)" % (
            prop, want.get("signature")))
        return 0
    same = (v["signature"] == want.get("signature")
            and v.get("at") == want.get("at"))
    print("VIOLATION property=%s replay=%s signature=%s class=%s at=%s "
          "same_as_recorded=%s" % (prop, path, v["signature"], v["class"],
                                   v.get("at"), same))
    print("  detail: %s" % json.dumps(_jsonable(v.get("detail", {})))[:1500])
    return 1


def run_digests(engine, prop, tier, seed, ks):
    def one(k):
        r = prng.run_seed(seed, prop, k)
        out = engine.run(prop, r, tier, k)
        return {"log_digest": out.get("log_digest"),
                "harness_error": out.get("harness_error")} \
            if "harness_error" in out else {"log_digest": out.get("log_digest")}
    got = {}
    for k in ks:
        res = pool.run_isolated(one, k, 120)
        got[str(k)] = res.get("log_digest")
    print("DIGESTS " + json.dumps(got))
    return 0
