"""One integer decides everything.

Run ``k`` of property ``P`` under ``VERIF_SEED = s`` uses

    r = int(sha256(f"{s}:{P}:{k}").hexdigest()[:16], 16)

``random.Random(r)`` makes every structural choice; ``np_rng(r, tag)`` makes
array data.  The global ``random`` / ``np.random`` streams are never used by
the harness.
"""
import hashlib
import random

import numpy as np


def run_seed(verif_seed: int, prop: str, k: int) -> int:
    h = hashlib.sha256(f"{verif_seed}:{prop}:{k}".encode()).hexdigest()
    return int(h[:16], 16)


def sub_seed(r: int, tag: str) -> int:
    h = hashlib.sha256(f"{r}/{tag}".encode()).hexdigest()
    return int(h[:16], 16)


def pyrng(r: int, tag: str = "") -> random.Random:
    return random.Random(sub_seed(r, tag) if tag else r)


def np_rng(r: int, tag: str = "") -> np.random.Generator:
    return np.random.Generator(np.random.PCG64(sub_seed(r, "np:" + tag)))
