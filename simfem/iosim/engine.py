"""iosim -- property C17: saving and loading a mesh round-trips geometry,
connectivity and tags.  See DESIGN.md section 4 (C17).

Real ``Mesh.save/load``, ``to_dict/from_dict``, ``skfem.io.json``,
``save_npz/load_npz``, ``to_meshio/from_meshio``, real meshio, real files in a
per-run scratch directory.  The simulator owns the order of save / overwrite /
clobber / load operations and the byte at which the disk becomes full
(``RLIMIT_FSIZE`` with ``SIGXFSZ`` ignored: the write that crosses byte n
fails with EFBIG, for Python file objects and for C ``FILE*`` writes alike).
"""
import logging
import os
import random
import resource
import shutil
import signal
import tempfile
import warnings

import numpy as np

from ..core import digest, prng
from ..core.shrink import ddmin
from ..gen import meshes

NAME = "iosim"
PROPS = {"C17"}

VARIANTS = {
    # name -> (suffix, save kwargs, first-order only?)
    "msh41": (".msh", {}, False),
    "msh22": (".msh", {"file_format": "gmsh22"}, False),
    "vtk": (".vtk", {}, False),
    "vtk-ascii": (".vtk", {"binary": False}, False),
    "vtu": (".vtu", {}, False),
    # not variants here: gmsh ASCII files written by meshio 5.3.5 cannot be
    # read back by it under NumPy 2.x (np.fromfile(sep=" ") now raises), and
    # its ASCII vtu writer prints 11 significant digits -- both are meshio's,
    # with or without scikit-fem, so judging them would not judge C17
    "vtu-raw": (".vtu", {"compression": None}, False),
    "json": (".json", None, True),
    "npz": (".npz", None, False),
}
MEM_VARIANTS = ["dict", "meshio"]
NAMES = ["left", "a", "ab", "abc", "b_x", "s_1", "top-2", "Om", "om", "x1",
         "reg:1"]     # the library's own gmsh loader produces names with ':' 
# specimen files shipped with the library's documentation: meshes written by
# gmsh itself (physical groups, oriented interfaces, second order, curved)
SPECIMEN_DIR = "/repo/docs/examples/meshes"
SPECIMENS = ["annulus.msh", "beams.msh", "cube_oriented_sub.msh",
             "cylinder_stokes.msh", "disk.json", "ex04_mesh.json", "ex28.msh",
             "interface.msh", "internal.msh", "oriented_squares.msh",
             "quadratic_quad.msh", "quadratic_tri.msh", "quadraticsphere.msh",
             "square.msh", "tagged_gmsh4.msh", "troublesome_mesh.vtk",
             "mixedtriquad.msh"]
CELLS = ["tri", "quad", "tet", "hex"]


# ----------------------------------------------------------------- snapshots
def snap_mesh(m):
    """Deep, numbering-aware snapshot of everything C17 names."""
    out = {"cls": type(m).__name__, "p": np.array(m.p, copy=True),
           "t": np.array(m.t, copy=True), "sub": {}, "bnd": {},
           "bad_dtype": None}
    for what, tags in (("subdomain", m.subdomains), ("boundary", m.boundaries)):
        for k, v in (tags or {}).items():
            if not np.issubdtype(np.asarray(v).dtype, np.integer):
                out["bad_dtype"] = [what, str(k), str(np.asarray(v).dtype)]
    # tags are SETS of entities: an index array may list an entity twice (the
    # concatenation of two overlapping selections); the set is what must
    # survive, so duplicates are removed before comparing
    for k, v in (m.subdomains or {}).items():
        out["sub"][str(k)] = np.unique(np.array(v, dtype=np.int64).ravel())
    for k, v in (m.boundaries or {}).items():
        idx = np.array(v, dtype=np.int64).ravel()
        ori = getattr(v, "ori", None)
        ori = np.zeros(len(idx), dtype=np.int64) if ori is None \
            else np.array(ori, dtype=np.int64).ravel()
        pairs = np.unique(np.stack((idx, ori), axis=1), axis=0) \
            if len(idx) else np.zeros((0, 2), dtype=np.int64)
        out["bnd"][str(k)] = (pairs[:, 0], pairs[:, 1])
    return out


def mesh_digest(m):
    parts = [digest.arr(m.p), digest.arr(m.t)]
    for tags in (m.subdomains, m.boundaries):
        if tags is None:
            parts.append("None")
            continue
        for k in sorted(tags):
            parts.append(str(k))
            parts.append(digest.arr(np.asarray(tags[k])))
            ori = getattr(tags[k], "ori", None)
            parts.append("-" if ori is None else digest.arr(np.asarray(ori)))
    return digest.hbytes(*parts)


def compare(want, got, first_order_class=False):
    """First difference between two snapshots as (class, detail) or None."""
    wc = want["cls"]
    if got["cls"] != wc:
        return "R1-class-differs", {"saved": wc, "loaded": got["cls"]}
    if want["p"].shape != got["p"].shape or \
            not np.array_equal(want["p"], got["p"]):
        d = None
        if want["p"].shape == got["p"].shape:
            d = float(np.abs(want["p"] - got["p"]).max())
        return "R1-points-differ", {"saved_shape": list(want["p"].shape),
                                    "loaded_shape": list(got["p"].shape),
                                    "max_abs_diff": d}
    if want["t"].shape != got["t"].shape or \
            not np.array_equal(want["t"], got["t"]):
        return "R1-connectivity-differs", {
            "saved_shape": list(want["t"].shape),
            "loaded_shape": list(got["t"].shape)}
    for what, cls in (("sub", "subdomain"), ("bnd", "boundary")):
        if sorted(want[what]) != sorted(got[what]):
            return "R1-%s-names-differ" % cls, {
                "saved": sorted(want[what]), "loaded": sorted(got[what])}
    if got.get("bad_dtype") and not want.get("bad_dtype"):
        return "R1-tag-array-not-integer", {"tag": got["bad_dtype"]}
    for k in sorted(want["sub"]):
        if not np.array_equal(want["sub"][k], got["sub"][k]):
            return "R1-subdomain-set-differs", {
                "name": k, "saved": want["sub"][k][:12].tolist(),
                "loaded": got["sub"][k][:12].tolist()}
    for k in sorted(want["bnd"]):
        wi, wo = want["bnd"][k]
        gi, go = got["bnd"][k]
        if not np.array_equal(wi, gi):
            return "R1-boundary-set-differs", {
                "name": k, "saved": wi[:12].tolist(), "loaded": gi[:12].tolist()}
        if not np.array_equal(wo, go):
            return "R1-orientation-differs", {
                "name": k, "facets": wi[:12].tolist(),
                "saved": wo[:12].tolist(), "loaded": go[:12].tolist()}
    return None


# ----------------------------------------------------------------- generation
def gen_tags(rng):
    tags = []
    names = rng.sample(NAMES, rng.choice([0, 1, 2, 3, 4, 4, 8, len(NAMES)]))
    for n in names:
        kind = rng.choice(["s", "s", "b", "b", "bo"])
        tags.append({"kind": kind, "name": n,
                     "frac": rng.choice([0.0, 0.1, 0.3, 0.6, 1.0]),
                     "seed": rng.randrange(1 << 30),
                     "where": rng.choice(["boundary", "interior", "any"]),
                     "shuffle": rng.random() < 0.35,
                     "repeat": rng.random() < 0.15,
                     "two_sided": rng.random() < 0.5})
    return tags


def generate(rng, tier):
    faulty = rng.random() < 0.5
    nops = rng.choice([3, 4, 6, 8, 10])
    ops = []
    nm = 0
    npath = 0
    variants = sorted(VARIANTS)
    # swarm: a subset of variants per run
    enabled = [v for v in variants if rng.random() < 0.6] or \
        [rng.choice(variants)]
    paths = []           # (path id, variant)

    def mk():
        nonlocal nm
        cell = rng.choice(CELLS)
        max_n = {"tri": 3, "quad": 3, "tet": 1, "hex": 2}[cell]
        rec = meshes.random_recipe(rng, [cell], max_n=max_n, order2=0.3)
        slot = "m%d" % nm
        nm += 1
        o = {"op": "mk", "slot": slot, "recipe": rec, "tags": gen_tags(rng),
             "data_seed": rng.randrange(1 << 30)}
        if rng.random() < 0.12:
            o["file"] = rng.choice(SPECIMENS)
        elif cell in ("tri", "quad", "tet") and rng.random() < 0.15:
            # the mesh enters through from_meshio's gmsh path: physical
            # groups given as cell sets over explicit facet elements, each
            # with a seeded direction, mixing interior and boundary facets
            o["cellsets"] = {"seed": rng.randrange(1 << 30),
                             "groups": rng.randint(1, 3)}
            o["recipe"] = dict(rec, order=1)
        ops.append(o)
        return slot

    slots = [mk()]
    while len(ops) < nops:
        r = rng.random()
        if r < 0.12 or not slots:
            slots.append(mk())
        elif r < 0.55:
            v = rng.choice(enabled)
            if paths and rng.random() < 0.45:
                # overwrite an existing path (same suffix family)
                cands = [p for p in paths
                         if VARIANTS[p[1]][0] == VARIANTS[v][0]]
                pid = rng.choice(cands)[0] if cands else None
            else:
                pid = None
            if pid is None:
                pid = "f%d" % npath
                npath += 1
            paths = [p for p in paths if p[0] != pid] + [(pid, v)]
            fault = None
            if faulty and rng.random() < 0.4:
                fault = {"kind": "disk-full",
                         "frac": round(rng.choice([0.0, rng.random(),
                                                   rng.random(), 0.98]), 4)}
                if rng.random() < 0.2:
                    fault = {"kind": "open-fails", "frac": 0.0}
            ops.append({"op": "save", "mesh": rng.choice(slots), "path": pid,
                        "variant": v, "with_data": rng.random() < 0.5,
                        "fault": fault,
                        "encode_point_data": rng.random() < 0.2})
        elif r < 0.85 and paths:
            pid, v = rng.choice(paths)
            o = {"op": "load", "path": pid, "variant": v}
            if rng.random() < 0.12:
                # name the cell type explicitly (the one the file holds)
                o["force_type"] = True
            if rng.random() < 0.3:
                o["into"] = "m%d" % nm
                nm += 1
                slots.append(o["into"])
            ops.append(o)
            if "into" in o and rng.random() < 0.5:
                # the user redefines the tags of the loaded mesh under the
                # SAME names and saves it again, handing back the data
                # dictionaries that load() returned (they contain the old
                # encoded tags next to the user's own fields)
                new = "m%d" % nm
                nm += 1
                slots.append(new)
                ops.append({"op": "retag", "src": o["into"], "slot": new,
                            "seed": rng.randrange(1 << 30)})
                v2 = rng.choice(enabled)
                pid2 = "f%d" % npath
                npath += 1
                paths = paths + [(pid2, v2)]
                ops.append({"op": "save", "mesh": new, "path": pid2,
                            "variant": v2, "with_data": True, "fault": None,
                            "reuse_loaded_data": True})
        elif r < 0.92 and len(paths) >= 2:
            (a, va), (b, vb) = rng.sample(paths, 2)
            ops.append({"op": "clobber", "path": a, "variant": va,
                        "from": b, "from_variant": vb})
        else:
            ops.append({"op": "mem", "mesh": rng.choice(slots),
                        "variant": rng.choice(MEM_VARIANTS)})
    # always end by reading back everything that was saved
    for pid, v in paths:
        ops.append({"op": "load", "path": pid, "variant": v})
    return {"config": {"faulty": faulty, "enabled": enabled}, "ops": ops}


# ----------------------------------------------------------------- building
def build_mesh(o):
    """Mesh with seeded tags (arbitrary cell subsets, boundary and interior
    facet subsets, oriented interfaces with seeded flags)."""
    from skfem.generic_utils import OrientedBoundary
    m = None
    if o.get("file"):
        path = os.path.join(SPECIMEN_DIR, o["file"])
        if os.path.exists(path):
            if path.endswith(".json"):
                from skfem.io.json import from_file
                m = from_file(path)
            else:
                from skfem import Mesh
                m = Mesh.load(path)
        if m is not None and m.subdomains:
            # the gmsh loader reports gmsh's 'gmsh:bounding_entities'
            # bookkeeping (negative and repeated entity tags) as if it were a
            # subdomain; that is not a set of cells, so it is not carried
            # into the round trips (DESIGN.md section 7)
            from dataclasses import replace as _replace
            keep = {k: v for k, v in m.subdomains.items()
                    if not str(k).startswith("gmsh:")}
            m = _replace(m, _subdomains=keep or None)
    if m is None and o.get("cellsets"):
        m = _from_cellsets(o)
    if m is None:
        m = meshes.build(o["recipe"])
    subs, bnds = {}, {}
    for tg in o["tags"]:
        r = random.Random(tg["seed"])
        if tg["kind"] == "s":
            n = m.nelements
            k = min(n, int(round(tg["frac"] * n)))
            ix = sorted(r.sample(range(n), k))
            if tg.get("shuffle"):
                r.shuffle(ix)
            subs[tg["name"]] = np.array(ix, dtype=np.int32)
        else:
            f2t = m.f2t
            if tg["where"] == "boundary":
                cand = np.nonzero(f2t[1] == -1)[0]
            elif tg["where"] == "interior":
                cand = np.nonzero(f2t[1] != -1)[0]
            else:
                cand = np.arange(f2t.shape[1])
            k = min(len(cand), int(round(tg["frac"] * len(cand))))
            ix = sorted(r.sample(cand.tolist(), k))
            if tg.get("repeat") and ix:
                # the same facet listed twice (overlapping selections)
                ix = ix + [ix[r.randrange(len(ix))]]
                if tg.get("two_sided") and tg["kind"] == "bo":
                    # a whole interface listed from both sides
                    ix = ix + [f for f in sorted(set(ix)) if f2t[1, f] != -1
                               and f != ix[-1]]
            if tg.get("shuffle"):
                r.shuffle(ix)     # a user-chosen, not ascending, order
            idx = np.array(ix, dtype=np.int32)
            if tg["kind"] == "bo":
                flag = {}
                for f in idx.tolist():   # one flag per facet ...
                    flag.setdefault(f, r.randrange(2) if f2t[1, f] != -1 else 0)
                ori = np.array([flag[f] for f in idx.tolist()], dtype=np.int64)
                if tg.get("two_sided"):
                    # ... unless the interface is listed from both sides:
                    # the second occurrence of an interior facet gets the
                    # opposite flag
                    seen = set()
                    for j, f in enumerate(idx.tolist()):
                        if f in seen and f2t[1, f] != -1:
                            ori[j] = 1 - flag[f]
                        seen.add(f)
                bnds[tg["name"]] = OrientedBoundary(idx, ori)
            else:
                bnds[tg["name"]] = idx
    if subs:
        m = m.with_subdomains(subs)
    if bnds:
        m = m.with_boundaries(bnds)
    return m


def _from_cellsets(o):
    """A mesh as gmsh would hand it over: facet elements with a direction,
    grouped into named cell sets (interior and boundary facets mixed)."""
    import meshio
    from skfem.io.meshio import from_meshio
    base = meshes.build(o["recipe"])
    r = random.Random(o["cellsets"]["seed"])
    kind = type(base).__name__
    ctype = {"MeshTri1": "triangle", "MeshQuad1": "quad",
             "MeshTet1": "tetra"}[kind]
    btype = {"MeshTri1": "line", "MeshQuad1": "line",
             "MeshTet1": "triangle"}[kind]
    fac = np.array(base.facets)
    f2t = np.array(base.f2t)
    nf = fac.shape[1]
    chosen, sets, start = [], {}, 0
    for g in range(o["cellsets"]["groups"]):
        k = r.randint(1, min(nf, 8))
        pick = r.sample(range(nf), k)
        rows = []
        for f in pick:
            v = fac[:, f].tolist()
            if r.random() < 0.5:
                v = v[::-1] if len(v) == 2 else [v[0], v[2], v[1]]
            rows.append(v)
        chosen += rows
        sets["grp%d" % g] = [np.array([], dtype=np.int64),
                             np.arange(start, start + k, dtype=np.int64)]
        start += k
    nt = base.t.shape[1]
    sets["dom"] = [np.array(sorted(r.sample(range(nt), r.randint(1, nt))),
                            dtype=np.int64), np.array([], dtype=np.int64)]
    mio = meshio.Mesh(np.array(base.p.T),
                      [(ctype, np.array(base.t.T)),
                       (btype, np.array(chosen, dtype=np.int64))],
                      cell_sets=sets)
    return from_meshio(mio)


def user_data(m, seed):
    g = np.random.Generator(np.random.PCG64(seed))
    pd = {"upoint": g.standard_normal(m.p.shape[1]),
          "ipoint": g.integers(0, 50, size=m.p.shape[1]).astype(np.float64)}
    cd = {"ucell": [g.standard_normal(m.nelements)]}
    # vector-valued fields (three components: what every format can hold)
    if seed % 3 == 0:
        pd["vpoint"] = g.standard_normal((m.p.shape[1], 3))
    if seed % 3 == 1:
        cd["vcell"] = [g.standard_normal((m.nelements, 3))]
    return pd, cd


# ----------------------------------------------------------------- fault seam
class DiskFull:
    """Disk becomes full at byte n of any file written inside the block."""

    def __init__(self, nbytes):
        self.n = int(nbytes)

    def __enter__(self):
        self.old = resource.getrlimit(resource.RLIMIT_FSIZE)
        self.oldsig = signal.signal(signal.SIGXFSZ, signal.SIG_IGN)
        resource.setrlimit(resource.RLIMIT_FSIZE, (self.n, self.old[1]))
        return self

    def __exit__(self, *a):
        resource.setrlimit(resource.RLIMIT_FSIZE, self.old)
        signal.signal(signal.SIGXFSZ, self.oldsig)
        return False


class NoFd:
    """Every attempt to open a file inside the block fails with EMFILE
    (RLIMIT_NOFILE lowered to the lowest free descriptor number)."""

    def __enter__(self):
        self.old = resource.getrlimit(resource.RLIMIT_NOFILE)
        fd = os.open(os.devnull, os.O_RDONLY)
        os.close(fd)
        resource.setrlimit(resource.RLIMIT_NOFILE, (fd, self.old[1]))
        return self

    def __exit__(self, *a):
        resource.setrlimit(resource.RLIMIT_NOFILE, self.old)
        return False


def do_save(m, path, variant, pd, cd, enc_pd=False):
    suffix, kw, _ = VARIANTS[variant]
    if enc_pd and kw is not None:
        # the tags additionally written as point data (a documented option)
        kw = dict(kw, encode_point_data=True)
    if variant == "json":
        from skfem.io.json import to_file
        to_file(m, path)
    elif variant == "npz":
        m.save_npz(path)
    else:
        m.save(path, point_data=pd, cell_data=cd, **kw)


_MESHIO_TYPE = {"MeshLine1": "line", "MeshTri1": "triangle",
                "MeshQuad1": "quad", "MeshTet1": "tetra",
                "MeshHex1": "hexahedron", "MeshTri2": "triangle6",
                "MeshQuad2": "quad9", "MeshTet2": "tetra10",
                "MeshHex2": "hexahedron27", "MeshWedge1": "wedge"}


def do_load(path, variant, want_data, force_type=False):
    from skfem import Mesh
    if variant == "json":
        from skfem.io.json import from_file
        return from_file(path), None
    if variant == "npz":
        cls = want_data["cls"]
        from skfem import mesh as skm
        return getattr(skm, cls).load_npz(path), None
    out = ["point_data", "cell_data"]
    kw = {}
    if force_type and want_data.get("cls") in _MESHIO_TYPE:
        kw["force_meshio_type"] = _MESHIO_TYPE[want_data["cls"]]
    m = Mesh.load(path, out=out, **kw)
    return m, out


class Silence:
    """meshio reports through a rich console on stdout/stderr; keep the
    check's own output clean (and never write to a regular file while the
    file-size limit is lowered)."""

    def __enter__(self):
        import sys
        sys.stdout.flush()
        sys.stderr.flush()
        self.saved = (os.dup(1), os.dup(2))
        self.null = os.open(os.devnull, os.O_WRONLY)
        os.dup2(self.null, 1)
        os.dup2(self.null, 2)
        return self

    def __exit__(self, *a):
        import sys
        try:
            sys.stdout.flush()
            sys.stderr.flush()
        except Exception:
            pass
        os.dup2(self.saved[0], 1)
        os.dup2(self.saved[1], 2)
        for fd in self.saved + (self.null,):
            os.close(fd)
        return False


# ----------------------------------------------------------------- execute
def execute(trace):
    with Silence():
        return _execute(trace)


def _execute(trace):
    stats = {"steps": 0, "faults": {}, "probes": {}, "swarm": {}}
    probes, faults = stats["probes"], stats["faults"]
    log = []
    violation = None
    keys_nt = set()

    def bump(d, k, n=1):
        d[k] = d.get(k, 0) + n

    lg = logging.getLogger("skfem")
    lg.setLevel(logging.ERROR)
    scratch = tempfile.mkdtemp(prefix="simfem_io_")
    W = {}          # slot -> mesh
    model = {}      # path id -> {"state", "snap", "variant", "data"}
    try:
        with warnings.catch_warnings():
            warnings.simplefilter("ignore")
            for k, o in enumerate(trace["ops"]):
                stats["steps"] += 1
                op = o["op"]
                v = None
                if op == "mk":
                    W[o["slot"]] = build_mesh(o)
                    if o.get("file"):
                        bump(probes, "specimen-file-mesh")
                    elif o.get("cellsets"):
                        bump(probes, "mesh-entered-through-gmsh-cell-sets")
                    W[o["slot"] + ":data"] = user_data(W[o["slot"]],
                                                       o["data_seed"])
                    log.append((k, "mk", mesh_digest(W[o["slot"]])))
                    continue
                if op == "retag":
                    _retag(o, W, bump, probes)
                    continue
                if op == "save":
                    v = _save(o, W, model, scratch, probes, faults, keys_nt,
                              bump)
                elif op == "load":
                    v = _load(o, W, model, scratch, probes, bump)
                elif op == "clobber":
                    src = model.get(o["from"])
                    if src is None or src["state"] == "absent":
                        bump(probes, "op-skipped")
                        continue
                    a = os.path.join(scratch, o["path"] + VARIANTS[o["variant"]][0])
                    b = os.path.join(scratch, o["from"] + VARIANTS[o["from_variant"]][0])
                    if os.path.exists(b):
                        shutil.copyfile(b, a)
                        model[o["path"]] = {"state": "indet",
                                            "variant": o["variant"]}
                        bump(faults, "path-clobbered-with-other-content")
                elif op == "mem":
                    v = _mem(o, W, probes, bump)
                log.append((k, op, None if v is None else v[0]))
                if v is not None:
                    cls, detail, variant, mcls = v
                    violation = {"class": cls, "at": k,
                                 "signature": "%s/%s/%s" % (cls, variant, mcls),
                                 "detail": dict(detail, op=o)}
                    break
    finally:
        shutil.rmtree(scratch, ignore_errors=True)
    cfg = trace.get("config", {})
    stats["swarm"] = {"faulty": cfg.get("faulty"),
                      "nvariants": len(cfg.get("enabled", []))}
    hist = digest.jdigest(trace["ops"])
    keys = {"histories": [hist], "nontrivial": sorted(keys_nt)}
    return {"trace": trace, "violation": violation, "stats": stats,
            "log_digest": digest.jdigest(log), "keys": keys}


def _retag(o, W, bump, probes):
    """Same geometry, same tag NAMES, other tagged sets / flags."""
    from dataclasses import replace as _replace
    from skfem.generic_utils import OrientedBoundary
    m = W.get(o["src"])
    if m is None:
        return
    r = random.Random(o["seed"])
    subs = {}
    for k in (m.subdomains or {}):
        n = m.nelements
        subs[k] = np.array(sorted(r.sample(range(n), r.randint(0, n))),
                           dtype=np.int32)
    bnds = {}
    f2t = m.f2t
    for k, v in (m.boundaries or {}).items():
        nf = f2t.shape[1]
        idx = np.array(sorted(r.sample(range(nf), r.randint(0, min(nf, 12)))),
                       dtype=np.int32)
        if getattr(v, "ori", None) is not None or r.random() < 0.3:
            ori = np.array([r.randrange(2) if f2t[1, f] != -1 else 0
                            for f in idx], dtype=np.int64)
            bnds[k] = OrientedBoundary(idx, ori)
        else:
            bnds[k] = idx
    W[o["slot"]] = _replace(m, _subdomains=subs or None,
                            _boundaries=bnds or None)
    W[o["slot"] + ":data"] = W.get(o["src"] + ":data")
    W[o["slot"] + ":loaded"] = W.get(o["src"] + ":loaded")
    bump(probes, "tags-redefined-under-the-same-names")


def _path(scratch, o):
    return os.path.join(scratch, o["path"] + VARIANTS[o["variant"]][0])


def _save(o, W, model, scratch, probes, faults, keys_nt, bump):
    m = W.get(o["mesh"])
    if m is None:
        bump(probes, "op-skipped")
        return None
    variant = o["variant"]
    mcls = type(m).__name__
    if VARIANTS[variant][2] and mcls.endswith("2"):
        bump(probes, "variant-not-applicable-to-second-order")
        return None
    pd, cd = (None, None)
    data = None
    loaded = W.get(o["mesh"] + ":loaded") if o.get("reuse_loaded_data") \
        else None
    if loaded is not None and variant not in ("json", "npz"):
        # the dictionaries returned by an earlier load(), handed back as they
        # are: the user's fields plus the OLD encoded tags
        # ('gmsh:*' entries are meshio's own bookkeeping; its gmsh writer
        # raises KeyError when it gets one of the pair without the other,
        # with or without scikit-fem, so they are not handed back)
        pd = {k: np.array(v) for k, v in loaded[0].items()
              if not k.startswith("gmsh:")}
        cd = {k: [np.array(a) for a in v] for k, v in loaded[1].items()
              if not k.startswith("gmsh:")}
        user_pd = {k: np.asarray(v, dtype=np.float64)
                   for k, v in pd.items() if not k.startswith("skfem:")
                   and not k.startswith("gmsh:")}
        user_cd = {k: [np.asarray(v[0], dtype=np.float64)]
                   for k, v in cd.items() if not k.startswith("skfem:")
                   and not k.startswith("gmsh:")}
        data = (user_pd, user_cd)
        bump(probes, "save-with-data-dictionaries-returned-by-load")
    elif o["with_data"] and variant not in ("json", "npz"):
        pd0, cd0 = W[o["mesh"] + ":data"]
        pd = {k: v.copy() for k, v in pd0.items()}
        cd = {k: [a.copy() for a in v] for k, v in cd0.items()}
        data = (pd0, cd0)
    path = _path(scratch, o)
    before = mesh_digest(m)
    snap = snap_mesh(m)
    existed = os.path.exists(path)
    if existed:
        bump(probes, "overwrite-existing-path")
        old = os.path.getsize(path)
    fault = o.get("fault")
    raised = None
    if fault is not None:
        # size of the fault-free file, measured on a scratch name
        dry = os.path.join(scratch, "dry" + VARIANTS[variant][0])
        try:
            do_save(m, dry, variant,
                    None if pd is None else {k: v.copy() for k, v in pd.items()},
                    None if cd is None else {k: [a.copy() for a in v]
                                             for k, v in cd.items()},
                    o.get("encode_point_data", False))
            size = os.path.getsize(dry)
        finally:
            if os.path.exists(dry):
                os.remove(dry)
        limit = int(fault["frac"] * size)
        try:
            with (DiskFull(limit) if fault["kind"] == "disk-full" else NoFd()):
                do_save(m, path, variant, pd, cd,
                        o.get("encode_point_data", False))
        except Exception as e:
            raised = e
        if raised is not None and fault["kind"] == "disk-full":
            bump(faults, "disk-full-fired")
            bump(faults, "disk-full-fired-%s" % variant)
            bump(faults, "disk-full-decile-%d" % min(9, int(fault["frac"] * 10)))
        elif raised is not None:
            bump(faults, "open-fails-fired")
            bump(faults, "open-fails-fired-%s" % variant)
        else:
            bump(probes, "fault-armed-but-save-returned-normally")
    else:
        try:
            do_save(m, path, variant, pd, cd,
                    o.get("encode_point_data", False))
        except Exception as e:
            raised = e
    after = mesh_digest(m)
    if after != before:
        return ("R2-export-altered-mesh", {}, variant, mcls)
    if raised is not None:
        if fault is None:
            prev = model.get(o["path"])
            cls = "R4-save-fails-after-earlier-fault" if prev is not None \
                and prev.get("state") == "indet" else "R1-save-raised"
            return (cls, {"exception": "%s: %s" % (type(raised).__name__,
                                                   str(raised)[:200])},
                    variant, mcls)
        model[o["path"]] = {"state": "indet", "variant": variant}
        return None
    prev = model.get(o["path"])
    if prev is not None and prev.get("state") == "indet":
        bump(probes, "plain-save-after-failed-save-on-same-path")
    model[o["path"]] = {"state": "ack", "variant": variant, "snap": snap,
                        "data": data, "under_fault": fault is not None}
    nt = bool(snap["sub"] or snap["bnd"]) or mcls.endswith("2")
    if nt:
        keys_nt.add(digest.hbytes(before, variant))
    if any(len(x[1]) and x[1].any() for x in snap["bnd"].values()):
        bump(probes, "saved-oriented-interface")
    if any((len(x[0]) > 0) for x in snap["bnd"].values()):
        bump(probes, "saved-named-boundary")
    return None


def _check_data(entry, out):
    if entry.get("data") is None or out is None:
        return None
    pd0, cd0 = entry["data"]
    pd, cd = out
    for k, v in pd0.items():
        if k not in pd:
            return "R1-point-data-differs", {"missing": k}
        got = np.asarray(pd[k]).astype(np.float64)
        if v.ndim == 1:
            got = got.ravel()
        if got.shape != v.shape or not np.array_equal(got, v.astype(np.float64)):
            return "R1-point-data-differs", {"name": k,
                                             "saved_shape": list(v.shape),
                                             "loaded_shape": list(got.shape)}
    for k, v in cd0.items():
        if k not in cd:
            return "R1-cell-data-differs", {"missing": k}
        got = np.asarray(cd[k][0]).astype(np.float64)
        if v[0].ndim == 1:
            got = got.ravel()
        if got.shape != v[0].shape or \
                not np.array_equal(got, v[0].astype(np.float64)):
            return "R1-cell-data-differs", {"name": k,
                                            "saved_shape": list(v[0].shape),
                                            "loaded_shape": list(got.shape)}
    return None


def _load(o, W, model, scratch, probes, bump):
    entry = model.get(o["path"])
    if entry is None or entry["state"] != "ack":
        # absent or indeterminate paths are not loaded for a verdict
        bump(probes, "load-skipped-path-not-acknowledged")
        return None
    variant = entry["variant"]
    path = os.path.join(scratch, o["path"] + VARIANTS[variant][0])
    mcls = entry["snap"]["cls"]
    try:
        m, out = do_load(path, variant, entry["snap"],
                         force_type=o.get("force_type", False))
    except Exception as e:
        cls = "R3-acknowledged-save-under-fault-unreadable" \
            if entry.get("under_fault") else "R1-load-raised"
        return (cls, {"exception": "%s: %s" % (type(e).__name__,
                                               str(e)[:200])}, variant, mcls)
    d = compare(entry["snap"], snap_mesh(m))
    if d is None:
        d = _check_data(entry, out)
    if d is not None:
        cls, detail = d
        if entry.get("under_fault"):
            cls = "R3-" + cls[3:] + "-after-save-returned-under-fault"
        return (cls, detail, variant, mcls)
    bump(probes, "round-trip-verified")
    bump(probes, "round-trip-verified-%s" % variant)
    if "into" in o:
        W[o["into"]] = m
        if out is not None and isinstance(out[0], dict) \
                and isinstance(out[1], dict):
            W[o["into"] + ":loaded"] = (out[0], out[1])
        g = np.random.Generator(np.random.PCG64(17))
        W[o["into"] + ":data"] = user_data(m, 17)
        bump(probes, "loaded-mesh-reused-for-saving")
    return None


def _mem(o, W, probes, bump):
    m = W.get(o["mesh"])
    if m is None:
        return None
    mcls = type(m).__name__
    before = mesh_digest(m)
    want = snap_mesh(m)
    variant = o["variant"]
    try:
        if variant == "dict":
            if mcls.endswith("2"):
                return None
            got = type(m).from_dict(m.to_dict())
        else:
            from skfem.io.meshio import to_meshio, from_meshio
            got = from_meshio(to_meshio(m))
    except Exception as e:
        return ("R1-in-memory-round-trip-raised",
                {"exception": "%s: %s" % (type(e).__name__, str(e)[:200])},
                variant, mcls)
    if mesh_digest(m) != before:
        return ("R2-export-altered-mesh", {}, variant, mcls)
    d = compare(want, snap_mesh(got))
    if d is not None:
        return (d[0], d[1], variant, mcls)
    bump(probes, "round-trip-verified-%s" % variant)
    return None


# ----------------------------------------------------------------- engine API
def plan(prop, tier):
    if tier == "thorough":
        return {"runs": 40000, "budget_s": 900, "timeout_s": 180,
                "selfcheck_runs": 12}
    return {"runs": 3000, "budget_s": 65, "timeout_s": 120,
            "selfcheck_runs": 6}


def run(prop, rseed, tier, k):
    return execute(generate(prng.pyrng(rseed), tier))


def replay(trace):
    return execute(trace)


def trace_len(trace):
    return len(trace["ops"])


def shrink(trace, violation, exec_iso):
    sig = violation["signature"]
    cfg = trace.get("config", {})

    def ok(ops):
        out = exec_iso({"config": cfg, "ops": ops})
        return ("harness_error" not in out and out.get("violation") is not None
                and out["violation"]["signature"] == sig)

    ops = trace["ops"][:violation["at"] + 1]
    if not ok(ops):
        ops = trace["ops"]
    small, _ = ddmin(ops, ok, budget=200)
    # simplify meshes and tags
    for i, o in enumerate(small):
        if o["op"] != "mk":
            continue
        for cand in (dict(o, recipe=dict(o["recipe"], n=1, perm=False,
                                         jiggle=0.0)),
                     dict(o, recipe=dict(o["recipe"], perm=False)),):
            trial = small[:i] + [cand] + small[i + 1:]
            if cand != small[i] and ok(trial):
                small = trial
        o = small[i]
        tags = list(o["tags"])
        j = 0
        while j < len(tags):
            trial_tags = tags[:j] + tags[j + 1:]
            trial = small[:i] + [dict(o, tags=trial_tags)] + small[i + 1:]
            if ok(trial):
                tags = trial_tags
                small = trial
                o = small[i]
            else:
                j += 1
    for i, o in enumerate(small):
        if o["op"] == "save" and o.get("with_data"):
            trial = small[:i] + [dict(o, with_data=False)] + small[i + 1:]
            if ok(trial):
                small = trial
    return {"config": cfg, "ops": small}


def describe(prop):
    return {
        "technique": "deterministic simulation: seeded save/overwrite/clobber/"
                     "load histories on a scratch directory with disk-full "
                     "faults at a seeded byte offset (RLIMIT_FSIZE seam), "
                     "checked against an in-memory model path -> last "
                     "acknowledged mesh",
        "rule": "one evaluation = one seeded history of mk/save/load/clobber/"
                "in-memory round-trip operations over 1..3 meshes and 1..n "
                "paths; distinct_nontrivial counts distinct (mesh digest "
                "incl. tags, variant) pairs of acknowledged saves whose mesh "
                "carries at least one tag or is second order",
        "simulated_time": "logical steps (operations) only; no timers in the "
                          "system under test",
        "faults_not_applicable": [
            "message loss/duplication/reordering, partition (no network)",
            "crash-restart with recovery (save has no recovery protocol; a "
            "failed save only makes the path indeterminate)",
            "clock skew (no clock)"],
        "components": {
            "real": ["Mesh.save/Mesh.load, skfem.io.meshio.to_meshio/"
                     "from_meshio, skfem.io.json, save_npz/load_npz, "
                     "to_dict/from_dict", "meshio 5.3.5 writers/readers",
                     "the file system (per-run scratch directory)"],
            "stubbed": ["disk capacity: RLIMIT_FSIZE lowered around one save "
                        "(SIGXFSZ ignored), restored right after",
                        "descriptor table: RLIMIT_NOFILE lowered around one "
                        "save so that every open() fails with EMFILE"]},
        "assumptions": [
            "a save that raises makes its path indeterminate; indeterminate "
            "paths are not loaded for a verdict (the statement does not "
            "promise atomic or detectable-torn writes)",
            "a plain index array and an oriented boundary with all-zero "
            "flags are the same boundary",
            "user data compared by value after conversion to float64",
            "JSON/dict forms are judged for first-order classes only, as the "
            "statement says"],
    }
