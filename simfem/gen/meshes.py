"""Seeded mesh generator shared by all engines.

A *recipe* is a small JSON-able dict, e.g.

    {"family": "tri-delaunay", "n": 3, "seed": 99, "perm": true,
     "jiggle": 0.2, "order": 1}

``raw(recipe)`` is a pure function returning ``(clsname, p, t)`` built only
from NumPy/SciPy; ``build(recipe)`` feeds that to the public skfem
constructor.  Connectivity is produced here, not by skfem's ``init_tensor``
helpers, so that the generator does not share code with what is under test.
"""
import itertools
import random

import numpy as np

FAMILIES_BY_CELL = {
    "line": ["line-irregular"],
    "tri": ["tri-tensor", "tri-delaunay", "tri-holes", "tri-two-components",
            "tri-fan"],
    "quad": ["quad-tensor", "quad-sheared", "quad-jiggled"],
    "tet": ["tet-tensor", "tet-delaunay", "tet-single", "tet-sliver"],
    "hex": ["hex-box", "hex-affine", "hex-jiggled"],
    "wedge": ["wedge-extruded"],
}
# initial meshes from the library's own constructors (their numbering
# patterns - sorted connectivity, init_tensor's orientation, symmetric
# diagonals - differ from the generated ones); validated by the caller with
# own geometry before use
LIB_FAMILIES_BY_CELL = {
    "line": ["lib-line"],
    "tri": ["lib-tri-default", "lib-tri-symmetric", "lib-tri-sqsymmetric",
            "lib-tri-lshaped", "lib-tri-circle", "lib-tri-tensor"],
    "quad": ["lib-quad-default", "lib-quad-tensor"],
    "tet": ["lib-tet-default", "lib-tet-tensor", "lib-tet-ball"],
    "hex": ["lib-hex-default", "lib-hex-tensor"],
    "wedge": ["lib-wedge-default"],
}
for _c, _fs in LIB_FAMILIES_BY_CELL.items():
    FAMILIES_BY_CELL[_c] = FAMILIES_BY_CELL[_c] + _fs
FAMILY_CELL = {f: c for c, fs in FAMILIES_BY_CELL.items() for f in fs}
CLS1 = {"line": "MeshLine1", "tri": "MeshTri1", "quad": "MeshQuad1",
        "tet": "MeshTet1", "hex": "MeshHex1", "wedge": "MeshWedge1"}
CLS2 = {"tri": "MeshTri2", "quad": "MeshQuad2", "tet": "MeshTet2",
        "hex": "MeshHex2"}
DIM = {"line": 1, "tri": 2, "quad": 2, "tet": 3, "hex": 3, "wedge": 3}


def _axis(rng, n, irregular=True):
    """n cells on [0, 1] with irregular spacing."""
    if n <= 0:
        n = 1
    w = np.array([rng.uniform(0.5, 1.5) if irregular else 1.0
                  for _ in range(n)])
    x = np.concatenate(([0.0], np.cumsum(w)))
    return x / x[-1]


def _grid_ids(shape):
    return np.arange(int(np.prod(shape))).reshape(shape)


def _jiggle_interior(rng, p, boundary_mask, h, amount):
    if amount <= 0:
        return p
    q = p.copy()
    for j in range(p.shape[1]):
        if not boundary_mask[j]:
            for d in range(p.shape[0]):
                q[d, j] += rng.uniform(-amount, amount) * h
    return q


# ---------------------------------------------------------------- 1-D
def _line(rng, n, **_):
    x = _axis(rng, n)
    p = x[None, :]
    t = np.vstack((np.arange(n), np.arange(n) + 1))
    return p, t


# ---------------------------------------------------------------- 2-D
def _tri_tensor(rng, n, jiggle=0.0, **_):
    nx = max(1, n)
    ny = max(1, rng.choice([n, max(1, n - 1), n + 1]))
    x, y = _axis(rng, nx), _axis(rng, ny)
    ids = _grid_ids((nx + 1, ny + 1))
    P = np.array([[x[i], y[j]] for i in range(nx + 1) for j in range(ny + 1)]).T
    bmask = np.array([i in (0, nx) or j in (0, ny)
                      for i in range(nx + 1) for j in range(ny + 1)])
    h = min(np.diff(x).min(), np.diff(y).min())
    P = _jiggle_interior(rng, P, bmask, h, 0.3 * jiggle)
    t = []
    for i in range(nx):
        for j in range(ny):
            a, b, c, d = ids[i, j], ids[i + 1, j], ids[i + 1, j + 1], ids[i, j + 1]
            if rng.random() < 0.5:
                t += [[a, b, c], [a, c, d]]
            else:
                t += [[a, b, d], [b, c, d]]
    return P, np.array(t).T


def _jittered_points_2d(rng, n, jiggle):
    m = max(1, n)
    x = np.linspace(0, 1, m + 1)
    pts = []
    h = 1.0 / m
    amp = 0.35 * h * (0.3 + jiggle)
    for i in range(m + 1):
        for j in range(m + 1):
            px, py = x[i], x[j]
            if 0 < i < m:
                px += rng.uniform(-amp, amp)
            if 0 < j < m:
                py += rng.uniform(-amp, amp)
            pts.append((px, py))
    return np.array(pts)


def _delaunay(points, min_measure):
    from scipy.spatial import Delaunay
    tri = Delaunay(points)
    s = tri.simplices
    d = points.shape[1]
    e = points[s[:, 1:]] - points[s[:, :1]]
    vol = np.abs(np.linalg.det(e)) / (2 if d == 2 else 6)
    keep = vol > min_measure
    return s[keep].T


def _compress(P, t):
    used = np.unique(t)
    m = -np.ones(P.shape[1], dtype=np.int64)
    m[used] = np.arange(len(used))
    return P[:, used], m[t]


def _tri_delaunay(rng, n, jiggle=0.5, **_):
    pts = _jittered_points_2d(rng, n, jiggle)
    t = _delaunay(pts, 1e-6 / max(1, n) ** 2)
    return _compress(pts.T, t)


def _tri_holes(rng, n, jiggle=0.5, **_):
    n = max(3, n)
    pts = _jittered_points_2d(rng, n, jiggle)
    t = _delaunay(pts, 1e-6 / n ** 2)
    c = np.array([rng.uniform(0.35, 0.65), rng.uniform(0.35, 0.65)])
    r = rng.uniform(0.12, 0.25)
    mid = pts[t].mean(axis=0)
    keep = np.linalg.norm(mid - c, axis=1) > r
    if keep.sum() < 2:
        keep[:] = True
    return _compress(pts.T, t[:, keep])


def _tri_two_components(rng, n, jiggle=0.5, **_):
    P1, t1 = _tri_delaunay(rng, max(1, n - 1), jiggle)
    P2, t2 = _tri_tensor(rng, max(1, n - 1))
    P2 = P2 + np.array([[1.0 + rng.uniform(0.2, 0.6)], [rng.uniform(-0.3, 0.3)]])
    return np.hstack((P1, P2)), np.hstack((t1, t2 + P1.shape[1]))


def _tri_fan(rng, n, **_):
    """A fan of k triangles around a centre vertex (closed or open)."""
    k = max(3, n + 2)
    closed = rng.random() < 0.5
    if closed:
        k = max(5, k)   # every sector stays below pi
    ang = np.sort(np.array([rng.uniform(0, 1) for _ in range(k)]))
    ang = (ang + np.arange(k)) / k * (2 * np.pi if closed else np.pi * 1.2)
    rad = np.array([rng.uniform(0.6, 1.4) for _ in range(k)])
    P = np.hstack((np.zeros((2, 1)),
                   np.vstack((rad * np.cos(ang), rad * np.sin(ang)))))
    t = [[0, 1 + i, 1 + (i + 1) % k] for i in range(k if closed else k - 1)]
    return P, np.array(t).T


def _quad_grid(rng, n):
    nx = max(1, n)
    ny = max(1, rng.choice([n, max(1, n - 1), n + 1]))
    x, y = _axis(rng, nx), _axis(rng, ny)
    ids = _grid_ids((nx + 1, ny + 1))
    P = np.array([[x[i], y[j]] for i in range(nx + 1) for j in range(ny + 1)]).T
    bmask = np.array([i in (0, nx) or j in (0, ny)
                      for i in range(nx + 1) for j in range(ny + 1)])
    t = [[ids[i, j], ids[i + 1, j], ids[i + 1, j + 1], ids[i, j + 1]]
         for i in range(nx) for j in range(ny)]
    h = min(np.diff(x).min(), np.diff(y).min())
    return P, np.array(t).T, bmask, h


def _quad_tensor(rng, n, **_):
    P, t, _, _ = _quad_grid(rng, n)
    return P, t


def _quad_sheared(rng, n, **_):
    P, t, _, _ = _quad_grid(rng, n)
    A = np.array([[1.0, rng.uniform(-0.6, 0.6)],
                  [rng.uniform(-0.4, 0.4), rng.uniform(0.7, 1.3)]])
    return A @ P + np.array([[rng.uniform(-1, 1)], [rng.uniform(-1, 1)]]), t


def _quad_jiggled(rng, n, jiggle=0.5, **_):
    P, t, bmask, h = _quad_grid(rng, max(2, n))
    P = _jiggle_interior(rng, P, bmask, h, 0.2 * (0.3 + jiggle))
    return P, t


# ---------------------------------------------------------------- 3-D
def _grid3(rng, n, cap=3):
    nx = max(1, min(cap, n))
    ny = max(1, min(cap, rng.choice([n, max(1, n - 1)])))
    nz = max(1, min(cap, rng.choice([n, max(1, n - 1)])))
    x, y, z = _axis(rng, nx), _axis(rng, ny), _axis(rng, nz)
    ids = _grid_ids((nx + 1, ny + 1, nz + 1))
    P = np.array([[x[i], y[j], z[k]] for i in range(nx + 1)
                  for j in range(ny + 1) for k in range(nz + 1)]).T
    bmask = np.array([i in (0, nx) or j in (0, ny) or k in (0, nz)
                      for i in range(nx + 1) for j in range(ny + 1)
                      for k in range(nz + 1)])
    h = min(np.diff(x).min(), np.diff(y).min(), np.diff(z).min())
    return (nx, ny, nz), ids, P, bmask, h


def _tet_tensor(rng, n, jiggle=0.0, **_):
    (nx, ny, nz), ids, P, bmask, h = _grid3(rng, n, cap=2)
    P = _jiggle_interior(rng, P, bmask, h, 0.15 * jiggle)
    t = []
    for i in range(nx):
        for j in range(ny):
            for k in range(nz):
                o = np.array([i, j, k])
                for perm in itertools.permutations(range(3)):
                    v = [o.copy()]
                    cur = o.copy()
                    for ax in perm:
                        cur = cur.copy()
                        cur[ax] += 1
                        v.append(cur)
                    t.append([ids[tuple(w)] for w in v])
    return P, np.array(t).T


def _tet_delaunay(rng, n, jiggle=0.5, **_):
    m = max(1, min(2, n))
    x = np.linspace(0, 1, m + 1)
    h = 1.0 / m
    amp = 0.3 * h * (0.3 + jiggle)
    pts = []
    for i in range(m + 1):
        for j in range(m + 1):
            for k in range(m + 1):
                q = [x[i], x[j], x[k]]
                for d, idx in enumerate((i, j, k)):
                    if 0 < idx < m:
                        q[d] += rng.uniform(-amp, amp)
                pts.append(q)
    # a few extra interior points make the triangulation irregular
    for _ in range(rng.randint(1, 3)):
        pts.append([rng.uniform(0.2, 0.8) for _ in range(3)])
    pts = np.array(pts)
    t = _delaunay(pts, 1e-7)
    return _compress(pts.T, t)


def _tet_sliver(rng, n, **_):
    """Delaunay triangulation of random points in a thin plate or a needle:
    badly shaped, strongly anisotropic cells (long bisection chains)."""
    box = rng.choice([(1.0, 0.1, 0.01), (1.0, 0.01, 0.003), (1.0, 1.0, 0.02),
                      (0.05, 1.0, 0.2)])
    k = 6 + 8 * max(1, n) + rng.randint(0, 6)
    pts = np.array([[round(rng.uniform(0, b), 6) for b in box]
                    for _ in range(k)])
    t = _delaunay(pts, 1e-9 * box[0] * box[1] * box[2])
    return _compress(pts.T, t)


def _tet_single(rng, n, **_):
    """1..n tetrahedra glued along faces (a random strip)."""
    P = [np.array([0., 0., 0.]), np.array([1., 0., 0.]),
         np.array([0.2, 1., 0.]), np.array([0.3, 0.3, 1.])]
    t = [[0, 1, 2, 3]]
    for _ in range(max(0, n - 1)):
        last = t[-1]
        drop = rng.randrange(4)
        face = [v for q, v in enumerate(last) if q != drop]
        c = sum(P[v] for v in face) / 3.0
        apex = c + (c - P[last[drop]]) * rng.uniform(0.6, 1.2)
        P.append(apex)
        t.append(face + [len(P) - 1])
        # stop if the new cell overlaps an earlier one (keep strip simple)
        if len(t) >= 3:
            break
    return np.array(P).T, np.array(t).T


def _hex_cells(shape, ids):
    nx, ny, nz = shape
    t = []
    for i in range(nx):
        for j in range(ny):
            for k in range(nz):
                t.append([ids[i, j, k], ids[i, j, k + 1], ids[i, j + 1, k],
                          ids[i + 1, j, k], ids[i, j + 1, k + 1],
                          ids[i + 1, j, k + 1], ids[i + 1, j + 1, k],
                          ids[i + 1, j + 1, k + 1]])
    return np.array(t).T


def _hex_box(rng, n, **_):
    shape, ids, P, _, _ = _grid3(rng, n, cap=3)
    return P, _hex_cells(shape, ids)


def _hex_affine(rng, n, **_):
    shape, ids, P, _, _ = _grid3(rng, n, cap=2)
    A = np.eye(3) + np.array([[rng.uniform(-0.3, 0.3) for _ in range(3)]
                              for _ in range(3)])
    return A @ P + np.array([[rng.uniform(-1, 1)] for _ in range(3)]), \
        _hex_cells(shape, ids)


def _hex_jiggled(rng, n, jiggle=0.5, **_):
    shape, ids, P, bmask, h = _grid3(rng, max(2, n), cap=2)
    P = _jiggle_interior(rng, P, bmask, h, 0.12 * (0.3 + jiggle))
    return P, _hex_cells(shape, ids)


def _wedge(rng, n, **_):
    P2, t2 = _tri_tensor(rng, max(1, min(2, n)))
    nz = max(1, min(3, rng.choice([1, 2, n])))
    z = _axis(rng, nz)
    nv = P2.shape[1]
    P = np.hstack([np.vstack((P2, np.full((1, nv), zz))) for zz in z])
    t = np.hstack([np.vstack((t2 + l * nv, t2 + (l + 1) * nv))
                   for l in range(nz)])
    return P, t


def _lib(fam):
    def build(rng, n, **_):
        from skfem import mesh as skm
        ax = lambda k: _axis(rng, max(1, min(k, 3)))
        if fam == "lib-line":
            m = skm.MeshLine(_axis(rng, max(1, n)))
        elif fam == "lib-tri-default":
            m = skm.MeshTri().refined(min(n, 2) - 1 if n > 1 else 0)
        elif fam == "lib-tri-symmetric":
            m = skm.MeshTri.init_symmetric().refined(1 if n > 2 else 0)
        elif fam == "lib-tri-sqsymmetric":
            m = skm.MeshTri.init_sqsymmetric()
        elif fam == "lib-tri-lshaped":
            m = skm.MeshTri.init_lshaped()
        elif fam == "lib-tri-circle":
            m = skm.MeshTri.init_circle(nrefs=1 if n < 3 else 2)
        elif fam == "lib-tri-tensor":
            m = skm.MeshTri.init_tensor(ax(n), ax(n))
        elif fam == "lib-quad-default":
            m = skm.MeshQuad().refined(1 if n > 1 else 0)
        elif fam == "lib-quad-tensor":
            m = skm.MeshQuad.init_tensor(ax(n), ax(n))
        elif fam == "lib-tet-default":
            m = skm.MeshTet().refined(1 if n > 1 else 0)
        elif fam == "lib-tet-tensor":
            m = skm.MeshTet.init_tensor(ax(min(n, 2)), ax(1), ax(min(n, 2)))
        elif fam == "lib-tet-ball":
            m = skm.MeshTet.init_ball(nrefs=0 if n < 2 else 1)
        elif fam == "lib-hex-default":
            m = skm.MeshHex().refined(1 if n > 1 else 0)
        elif fam == "lib-hex-tensor":
            m = skm.MeshHex.init_tensor(ax(min(n, 2)), ax(min(n, 2)), ax(1))
        elif fam == "lib-wedge-default":
            m = skm.MeshWedge1()
        else:
            raise ValueError(fam)
        return np.array(m.p), np.array(m.t)
    return build


_BUILDERS = {
    "line-irregular": _line,
    "tri-tensor": _tri_tensor, "tri-delaunay": _tri_delaunay,
    "tri-holes": _tri_holes, "tri-two-components": _tri_two_components,
    "tri-fan": _tri_fan,
    "quad-tensor": _quad_tensor, "quad-sheared": _quad_sheared,
    "quad-jiggled": _quad_jiggled,
    "tet-tensor": _tet_tensor, "tet-delaunay": _tet_delaunay,
    "tet-single": _tet_single, "tet-sliver": _tet_sliver,
    "hex-box": _hex_box, "hex-affine": _hex_affine,
    "hex-jiggled": _hex_jiggled,
    "wedge-extruded": _wedge,
}
for _fs in LIB_FAMILIES_BY_CELL.values():
    for _f in _fs:
        _BUILDERS[_f] = _lib(_f)

# admissible local re-orderings (keep the reference topology)
_QUAD_ORDERS = [[0, 1, 2, 3], [1, 2, 3, 0], [2, 3, 0, 1], [3, 0, 1, 2]]


def _hex_orders():
    """Vertex renumberings of the hexahedron that are rotations of the
    reference cell (24 of them), derived from the coordinates of the default
    cell, not from skfem."""
    ref = np.array([[0, 0, 0], [0, 0, 1], [0, 1, 0], [1, 0, 0],
                    [0, 1, 1], [1, 0, 1], [1, 1, 0], [1, 1, 1]])
    orders = []
    for perm in itertools.permutations(range(3)):
        for flips in itertools.product([0, 1], repeat=3):
            M = np.zeros((3, 3))
            for r, c in enumerate(perm):
                M[r, c] = -1 if flips[r] else 1
            if np.linalg.det(M) < 0:
                continue
            img = (ref - 0.5) @ M.T + 0.5
            order = [int(np.argmin(np.abs(ref - q).sum(axis=1))) for q in img]
            orders.append(order)
    return orders


_HEX_ORDERS = _hex_orders()
# Prisms keep the generated local order.  scikit-fem identifies a triangular
# prism face by the 4-tuple (a, b, c, a) with the first local vertex repeated,
# so two prisms that see a shared triangle with different first vertices get
# two different facets for it (derived connectivity, property C11's subject,
# not claimed here; DESIGN.md section 7).  Rotated prisms would make every
# C18 verdict on prisms a statement about that instead.
_WEDGE_ORDERS = [[0, 1, 2, 3, 4, 5]]


def raw(recipe):
    """(clsname, p, t) for a recipe; pure function of the recipe."""
    fam = recipe["family"]
    cell = FAMILY_CELL[fam]
    rng = random.Random(int(recipe.get("seed", 0)) * 7919 + 13)
    P, t = _BUILDERS[fam](rng, int(recipe.get("n", 2)),
                          jiggle=float(recipe.get("jiggle", 0.0)))
    P = np.ascontiguousarray(P, dtype=np.float64)
    t = np.ascontiguousarray(t, dtype=np.int64)
    if recipe.get("perm", False):
        prng = random.Random(int(recipe.get("seed", 0)) * 104729 + 7)
        nv = P.shape[1]
        vp = list(range(nv))
        prng.shuffle(vp)          # new index of old vertex j is vp[j]
        vp = np.array(vp)
        inv = np.empty(nv, dtype=np.int64)
        inv[vp] = np.arange(nv)
        P = P[:, inv]
        t = vp[t]
        cp = list(range(t.shape[1]))
        prng.shuffle(cp)
        t = t[:, cp]
        # admissible local orders
        if cell == "line":
            for c in range(t.shape[1]):
                if prng.random() < 0.5:
                    t[:, c] = t[::-1, c]
        elif cell in ("tri", "tet"):
            for c in range(t.shape[1]):
                o = list(range(t.shape[0]))
                prng.shuffle(o)
                t[:, c] = t[o, c]
        elif cell == "quad":
            for c in range(t.shape[1]):
                t[:, c] = t[prng.choice(_QUAD_ORDERS), c]
        elif cell == "hex":
            for c in range(t.shape[1]):
                t[:, c] = t[prng.choice(_HEX_ORDERS), c]
        elif cell == "wedge":
            for c in range(t.shape[1]):
                t[:, c] = t[prng.choice(_WEDGE_ORDERS), c]
    order = int(recipe.get("order", 1))
    clsname = CLS1[cell] if order == 1 else CLS2[cell]
    if recipe.get("stretch"):
        # strongly anisotropic version of the same mesh (thin plates, needles)
        f = np.array(recipe["stretch"], dtype=float)[:P.shape[0]]
        P = P * f[:, None]
    if recipe.get("scale"):
        # the same mesh in other units (millimetre-size geometry in metres...)
        P = P * float(recipe["scale"])
    return clsname, P, t.astype(np.int32)


def build(recipe):
    """The skfem mesh for a recipe (public constructors only)."""
    import skfem
    from skfem import mesh as skmesh
    clsname, P, t = raw(recipe)
    order = int(recipe.get("order", 1))
    cell = FAMILY_CELL[recipe["family"]]
    cls1 = getattr(skmesh, CLS1[cell])
    m = cls1(P.copy(), t.copy())
    if order == 2:
        cls2 = getattr(skmesh, CLS2[cell])
        m = cls2.from_mesh(m)
    return m


def random_recipe(rng, cells=None, max_n=3, order2=0.0, families=None):
    cells = cells or list(FAMILIES_BY_CELL)
    cell = rng.choice(cells)
    fams = [f for f in FAMILIES_BY_CELL[cell]
            if families is None or f in families]
    fam = rng.choice(fams)
    rec = {"family": fam, "n": rng.randint(1, max_n),
           "seed": rng.randrange(1 << 30),
           "perm": rng.random() < 0.7,
           "jiggle": round(rng.choice([0.0, 0.3, 0.7, 1.0]), 2),
           "order": 1}
    if cell in CLS2 and rng.random() < order2:
        rec["order"] = 2
    return rec
