"""Integrand bodies used by the threadsim workload.

Frames of this module are pre-emption points (traced).  Every function has
the (u, v, w) signature of a scikit-fem bilinear form and is a pure function
of its arguments.
"""
import numpy as np
from skfem.helpers import dot, grad, div, ddot, sym_grad, curl  # noqa


def mass(u, v, w):
    return u * v


def mass_nonsym(u, v, w):
    a = 2.0 * u
    b = v + 0.0
    return a * b + 0.25 * u


def laplace(u, v, w):
    return dot(grad(u), grad(v))


def advect0(u, v, w):
    g = u.grad[0]
    return g * v


def advect_last(u, v, w):
    g = v.grad[-1]
    return u * g


def xweighted(u, v, w):
    x = w.x[0]
    return (1.0 + x) * u * v


def hweighted(u, v, w):
    h = w.h
    return h * u * v


def coef_mass(u, v, w):
    c = w['coef']
    return c * u * v


def coef_grad(u, v, w):
    c = w['coef']
    return dot(c.grad, grad(u)) * v + c * u * v


def scalar_param(u, v, w):
    s = w['alpha']
    return s * u * v + u * v.grad[0]


def complex_mass(u, v, w):
    return (1.0 + 2.0j) * u * v + 1j * u.grad[0] * v


def normal_flux(u, v, w):
    n0 = w.n[0]
    return n0 * u * v + dot(w.n, grad(u)) * v


def facet_mass(u, v, w):
    return u * v


def vec_mass(u, v, w):
    return dot(u, v)


def vec_elastic(u, v, w):
    return ddot(sym_grad(u), sym_grad(v)) + dot(u, v)


def vec_div_scalar(u, v, w):
    return div(u) * v


def scalar_div_vec(u, v, w):
    return u * div(v)


def hdiv_mass(u, v, w):
    return dot(u, v) + div(u) * div(v)


def hdiv_div_scalar(u, v, w):
    return div(u) * v


def scalar_hdiv_div(u, v, w):
    return u * div(v)


def mixed_stokes(u, p, v, q, w):
    return ddot(sym_grad(u), sym_grad(v)) - div(u) * q - div(v) * p + 1e-2 * p * q


# Indexing a DiscreteField (w.x[0], u[0], x, y = w.x) hands the form a private
# copy, so a form may work on it in place; the arrays shared by all workers
# must not change under it.
def inplace_x(u, v, w):
    x = w.x[0]
    x -= 0.5
    x *= x
    return np.exp(-x) * u * v


def inplace_unpack(u, v, w):
    comps = [c for c in w.x]
    acc = comps[0]
    for c in comps[1:]:
        acc += c
    acc *= 0.25
    return (1.0 + acc) * u * v + u * v.grad[0]


def inplace_vec(u, v, w):
    a = u[0]
    a *= 2.0
    b = v[0]
    b += 0.0
    return a * b + dot(u, v)
