"""threadsim -- property C16: threaded assembly == serial assembly under every
schedule.  See DESIGN.md section 4 (C16)."""
import os
import random
import sys
import threading
import time as _time

import numpy as np

from ..core import digest, prng
from ..core.shrink import ddmin
from ..gen import meshes
from . import integrands
from .sched import (Scheduler, SimThreadFactory, SimViolation, Diverged,
                    DONE)

NAME = "threadsim"
PROPS = {"C16"}

# ----------------------------------------------------------------- registry
# name -> (constructor expression evaluated in skfem namespace, kind)
ELEMS = {
    "line": {"P0": ("ElementLineP0()", "scalar"),
             "P1": ("ElementLineP1()", "scalar"),
             "P2": ("ElementLineP2()", "scalar"),
             "Mini": ("ElementLineMini()", "scalar")},
    "tri": {"P0": ("ElementTriP0()", "scalar"),
            "P1": ("ElementTriP1()", "scalar"),
            "P2": ("ElementTriP2()", "scalar"),
            "CR": ("ElementTriCR()", "scalar"),
            "DG1": ("ElementDG(ElementTriP1())", "scalar"),
            "Mini": ("ElementTriMini()", "scalar"),
            "V1": ("ElementVector(ElementTriP1())", "vector"),
            "RT0": ("ElementTriRT0()", "hdiv"),
            "TH": ("ElementVector(ElementTriP1()) * ElementTriP0()", "mixed")},
    "quad": {"Q0": ("ElementQuad0()", "scalar"),
             "Q1": ("ElementQuad1()", "scalar"),
             "Q2": ("ElementQuad2()", "scalar"),
             "S2": ("ElementQuadS2()", "scalar"),
             "V1": ("ElementVector(ElementQuad1())", "vector")},
    "tet": {"P0": ("ElementTetP0()", "scalar"),
            "P1": ("ElementTetP1()", "scalar"),
            "CR": ("ElementTetCR()", "scalar"),
            "RT0": ("ElementTetRT0()", "hdiv")},
    "hex": {"H0": ("ElementHex0()", "scalar"),
            "H1": ("ElementHex1()", "scalar")},
}
GRADLESS = {"P0", "Q0", "H0"}

INTEGRANDS = {
    ("scalar", "scalar"): ["mass", "mass_nonsym", "laplace", "advect0",
                           "advect_last", "xweighted", "hweighted",
                           "coef_mass", "coef_grad", "scalar_param",
                           "complex_mass", "inplace_x", "inplace_unpack"],
    ("vector", "vector"): ["vec_mass", "vec_elastic", "inplace_vec"],
    ("vector", "scalar"): ["vec_div_scalar"],
    ("scalar", "vector"): ["scalar_div_vec"],
    ("hdiv", "hdiv"): ["hdiv_mass"],
    ("hdiv", "scalar"): ["hdiv_div_scalar"],
    ("scalar", "hdiv"): ["scalar_hdiv_div"],
    ("mixed", "mixed"): ["mixed_stokes"],
}
FACET_ONLY = {("scalar", "scalar"): ["normal_flux", "facet_mass"]}
BASIS_KINDS = ["cell", "cell", "cell-subset", "facet-boundary",
               "facet-interior0", "facet-interior1"]
ENTRIES = ["assemble", "assemble", "elemental", "coo_data", "decorator",
           "asm", "asm-list", "asm-sides", "twice", "reuse", "reuse"]
# one form object assembled with a sequence of (trial, test) pairs drawn from
# the two bases of the workload: state kept on the form between assemblies
# (e.g. a cached pair table) must not leak from one shape to the next
REUSE_SEQS = [[(0, 1), (1, 0)], [(1, 0), (0, 1)], [(0, 1), (1, 0), (0, 1)],
              [(0, 0), (0, 1), (1, 0), (1, 1)], [(0, 1), (1, 1), (1, 0)],
              [(1, 1), (0, 1), (1, 0), (0, 0)]]
REUSE_INTEGRANDS = ["mass", "mass_nonsym", "laplace", "advect0", "xweighted",
                    "hweighted", "scalar_param", "complex_mass", "inplace_x"]
POLICIES = ["random", "sticky", "pct", "starve-main", "main-first",
            "starve-worker", "roundrobin", "kernel-coarse", "reverse"]


def _skfem_ns():
    import skfem
    ns = {}
    for k in dir(skfem):
        if k.startswith("Element"):
            ns[k] = getattr(skfem, k)
    return ns


def gen_workload(rng):
    cell = rng.choice(["line", "tri", "tri", "quad", "tet", "hex"])
    max_n = {"line": 4, "tri": 2, "quad": 2, "tet": 1, "hex": 1}[cell]
    fams = {"line": None, "tri": None, "quad": None,
            "tet": ["tet-single", "tet-tensor"], "hex": ["hex-box", "hex-affine"]}[cell]
    rec = meshes.random_recipe(rng, [cell], max_n=max_n, families=fams)
    if cell == "tet" and rec["family"] == "tet-tensor":
        rec["n"] = 1
    names = sorted(ELEMS[cell])
    eu = rng.choice(names)
    ev = eu if rng.random() < 0.45 else rng.choice(names)
    ku, kv = ELEMS[cell][eu][1], ELEMS[cell][ev][1]
    if (ku, kv) not in INTEGRANDS:
        ev, kv = eu, ku
    bk = rng.choice(BASIS_KINDS)
    if cell == "line" and bk.startswith("facet"):
        bk = "cell"
    cands = list(INTEGRANDS[(ku, kv)])
    if bk.startswith("facet"):
        cands = cands + FACET_ONLY.get((ku, kv), [])
    if eu in GRADLESS or ev in GRADLESS or "CR" in (eu, ev):
        pass
    integ = rng.choice(cands)
    if integ in ("coef_grad", "coef_mass") and (ku != "scalar"):
        integ = "mass"
    entry = rng.choice(ENTRIES)
    if entry == "asm-sides" and not bk.startswith("facet-interior"):
        entry = "asm"
    if entry == "asm-list" and (bk != "cell-subset" or ev != eu):
        entry = "assemble"
    if entry in ("asm-list", "asm-sides") and integ in ("coef_mass",
                                                        "coef_grad"):
        integ = "xweighted"
    seq = None
    if entry == "reuse":
        if ku == "scalar" and kv == "scalar":
            if integ not in REUSE_INTEGRANDS:
                integ = rng.choice(REUSE_INTEGRANDS)
            seq = rng.choice(REUSE_SEQS)
        else:
            entry = "assemble"
    dtype = "complex128" if integ == "complex_mass" else \
        rng.choice(["float64", "float64", "float64", "complex128", "float32"])
    coef = None
    if integ in ("coef_mass", "coef_grad"):
        coef = rng.choice(["vector", "field"])
    wl = {"mesh": rec, "elem_u": eu, "elem_v": ev, "cell": cell,
          "basis": bk, "integrand": integ, "dtype": dtype, "coef": coef,
          "entry": entry, "intorder": rng.choice([1, 2, 3]),
          "subset_seed": rng.randrange(1 << 30),
          "data_seed": rng.randrange(1 << 30), "seq": seq,
          "nthreads": {"mode": rng.choice(["small", "small", "near", "over",
                                           "one", "rand"]),
                       "r": rng.randrange(1 << 30)}}
    return wl


class Built:
    pass


def build_workload(wl):
    """Construct mesh, bases, params (outside the simulated region)."""
    import skfem
    from skfem import (CellBasis, FacetBasis, InteriorFacetBasis)
    ns = _skfem_ns()
    b = Built()
    m = meshes.build(wl["mesh"])
    cell = wl["cell"]
    eu = eval(ELEMS[cell][wl["elem_u"]][0], ns)
    ev = eu if wl["elem_v"] == wl["elem_u"] else \
        eval(ELEMS[cell][wl["elem_v"]][0], ns)
    srng = random.Random(wl["subset_seed"])
    io = wl["intorder"]
    kind = wl["basis"]
    if m.nelements > 16:
        # keep the simulated region small: restrict to at most 16 cells
        keep = sorted(srng.sample(range(m.nelements), 16))
        m = m.restrict(np.array(keep, dtype=np.int32))
    b.mesh = m

    def mk(elem, part=None, side=None):
        if kind == "cell":
            return CellBasis(m, elem, intorder=io)
        if kind == "cell-subset":
            return CellBasis(m, elem, intorder=io, elements=part)
        if kind == "facet-boundary":
            return FacetBasis(m, elem, intorder=io)
        s = int(kind[-1]) if side is None else side
        return InteriorFacetBasis(m, elem, intorder=io, side=s)

    parts = [None]
    if kind == "cell-subset":
        nt = m.nelements
        k = srng.randint(1, nt)
        sub = np.array(sorted(srng.sample(range(nt), k)), dtype=np.int32)
        parts = [sub]
        if wl["entry"] == "asm-list":
            rest = np.setdiff1d(np.arange(nt, dtype=np.int32), sub)
            if len(rest):
                parts = [sub, rest]
    if kind.startswith("facet-interior"):
        if not (m.f2t[1] != -1).any():
            # no interior facet: fall back to boundary facets
            kind = "facet-boundary"
    b.kind = kind
    if wl["entry"] == "reuse":
        bu = mk(eu, part=parts[0])
        bv = bu if ev is eu else mk(ev, part=parts[0])
        b.ub = [bu, bv]
        b.vb = [bu, bv]
        b.seq = [tuple(x) for x in wl["seq"]]
    elif wl["entry"] == "asm-sides" and kind.startswith("facet-interior"):
        b.ub = [mk(eu, side=0), mk(eu, side=1)]
        b.vb = b.ub if ev is eu else [mk(ev, side=0), mk(ev, side=1)]
    elif wl["entry"] == "asm-list" and len(parts) == 2:
        b.ub = [mk(eu, part=p) for p in parts]
        b.vb = None
    else:
        ub = mk(eu, part=parts[0])
        vb = ub if ev is eu else mk(ev, part=parts[0])
        b.ub, b.vb = ub, vb
    first_u = b.ub[0] if isinstance(b.ub, list) else b.ub
    # keyword parameters
    g = np.random.Generator(np.random.PCG64(wl["data_seed"]))
    b.kwargs = {}
    if wl["integrand"] in ("coef_mass", "coef_grad"):
        vec = g.standard_normal(first_u.N)
        if wl["coef"] == "vector" and not isinstance(b.ub, list):
            b.kwargs["coef"] = vec
        else:
            if isinstance(b.ub, list):
                # lists of bases: a pre-interpolated field cannot fit all of
                # them; use a scalar instead
                b.kwargs["coef"] = 1.5
            else:
                b.kwargs["coef"] = first_u.interpolate(vec)
    if wl["integrand"] == "scalar_param":
        b.kwargs["alpha"] = float(g.uniform(0.5, 2.0))
    # thread count
    vb0 = first_u if b.vb is None else (b.vb[0] if isinstance(b.vb, list)
                                        else b.vb)
    if wl["entry"] == "reuse":
        vb0 = b.ub[1]
    npairs = first_u.Nbfun * vb0.Nbfun
    nr = random.Random(wl["nthreads"]["r"])
    mode = wl["nthreads"]["mode"]
    if "fixed" in wl["nthreads"]:
        nth = int(wl["nthreads"]["fixed"])
    elif mode == "one":
        nth = 1
    elif mode == "small":
        nth = nr.randint(2, 4)
    elif mode == "near":
        nth = max(1, npairs + nr.choice([-2, -1, 0]))
    elif mode == "over":
        nth = npairs + nr.choice([1, 2])
    else:
        nth = nr.randint(1, npairs + 2)
    b.nthreads = min(nth, 66)
    b.npairs = npairs
    b.Nu, b.Nv = first_u.Nbfun, vb0.Nbfun
    return b


def _np_dtype(name):
    return {"float64": np.float64, "complex128": np.complex128,
            "float32": np.float32}[name]


def call_entry(wl, b, form_fn, nthreads):
    """Run the chosen public entry point; return canonical result."""
    from skfem import BilinearForm, asm
    dt = _np_dtype(wl["dtype"])
    entry = wl["entry"]
    kw = dict(b.kwargs)
    ub, vb = b.ub, b.vb
    if entry == "decorator":
        form = BilinearForm(nthreads=nthreads, dtype=dt)(form_fn)
    else:
        form = BilinearForm(form_fn, dtype=dt, nthreads=nthreads)
    if entry == "reuse":
        outs = []
        for a, c in b.seq:
            f = form if nthreads > 0 else BilinearForm(form_fn, dtype=dt,
                                                       nthreads=0)
            outs.append(digest.sparse_raw(f.assemble(ub[a], ub[c], **kw)))
        return outs
    if isinstance(ub, list):
        if vb is None:
            out = asm(form, ub, **kw)
        else:
            out = asm(form, ub, vb, **kw)
        return digest.sparse_raw(out.tocsr())
    if entry in ("assemble", "decorator"):
        out = form.assemble(ub, vb, **kw)
        return digest.sparse_raw(out)
    if entry == "twice":
        out1 = form.assemble(ub, vb, **kw)
        out2 = form.assemble(ub, vb, **kw)
        return {"first": digest.sparse_raw(out1),
                "second": digest.sparse_raw(out2)}
    if entry == "elemental":
        c = form.elemental(ub, vb, **kw)
        return {"kind": "coo", "indices": digest.arr(c.indices),
                "data": digest.arr(c.data), "shape": list(c.shape),
                "local_shape": list(c.local_shape)}
    if entry == "coo_data":
        c = form.coo_data(ub, vb, **kw)
        return {"kind": "coo", "indices": digest.arr(c.indices),
                "data": digest.arr(c.data), "shape": list(c.shape),
                "local_shape": list(c.local_shape)}
    if entry in ("asm", "asm-list", "asm-sides"):
        out = asm(form, ub, vb, **kw) if vb is not None else asm(form, ub, **kw)
        return digest.sparse_raw(out.tocsr())
    raise ValueError(entry)


def _bases(b):
    out = []
    for x in (b.ub, b.vb):
        if x is None:
            continue
        for y in (x if isinstance(x, list) else [x]):
            if not any(y is z for z in out):
                out.append(y)
    return out


def input_digest(b):
    parts = []
    for bs in _bases(b):
        parts.append(digest.deep([list(t) for t in bs.basis]))
        parts.append(digest.arr(bs.dx))
        parts.append(digest.arr(bs.X))
        parts.append(digest.arr(bs.W))
        parts.append(digest.arr(bs.element_dofs))
        if getattr(bs, "tind", None) is not None:
            parts.append(digest.arr(bs.tind))
        if hasattr(bs, "normals"):
            parts.append(digest.deep(bs.normals))
        parts.append(digest.arr(bs.mesh.p))
        parts.append(digest.arr(bs.mesh.t))
    parts.append(digest.deep(b.kwargs))
    return digest.hbytes(*parts)


class Recorder:
    """The integrand wrapper's memory: who evaluated which pair, with what."""

    def __init__(self, b, sched):
        self.b = b
        self.sched = sched
        self.calls = []          # (assembly_key, j, i, task, late)
        self.w_digests = {}      # assembly_key -> set of digests of w
        self.u_index = {}
        self.v_index = {}
        self.u_dig = None
        self.v_dig = None
        self.unidentified = 0
        ubs = b.ub if isinstance(b.ub, list) else [b.ub]
        vbs = ubs if b.vb is None else (b.vb if isinstance(b.vb, list)
                                        else [b.vb])
        for n, bs in enumerate(ubs):
            for j, tup in enumerate(bs.basis):
                self.u_index[id(tup[0])] = (n, j)
        for n, bs in enumerate(vbs):
            for i, tup in enumerate(bs.basis):
                self.v_index[id(tup[0])] = (n, i)
        self.ubs, self.vbs = ubs, vbs
        self.ncomp_u = len(ubs[0].basis[0])

    def _fallback(self, arg, which):
        if which == "u":
            if self.u_dig is None:
                self.u_dig = {}
                for n, bs in enumerate(self.ubs):
                    for j, tup in enumerate(bs.basis):
                        self.u_dig.setdefault(digest.deep(tup[0]), []).append((n, j))
            c = self.u_dig.get(digest.deep(arg), [])
        else:
            if self.v_dig is None:
                self.v_dig = {}
                for n, bs in enumerate(self.vbs):
                    for i, tup in enumerate(bs.basis):
                        self.v_dig.setdefault(digest.deep(tup[0]), []).append((n, i))
            c = self.v_dig.get(digest.deep(arg), [])
        return c[0] if len(c) == 1 else None

    def note(self, args):
        s = self.sched
        u = args[0]
        v = args[self.ncomp_u]
        w = args[-1]
        ju = self.u_index.get(id(u)) or self._fallback(u, "u")
        iv = self.v_index.get(id(v)) or self._fallback(v, "v")
        if ju is None or iv is None:
            self.unidentified += 1
            ju = ju or (-1, -1)
            iv = iv or (-1, -1)
        idx = w.get("idx") if isinstance(w, dict) else None
        key = (repr(idx), ju[0], iv[0])
        task = s.cur if s is not None else 0
        late = bool(s is not None and (s.draining or not s.active))
        self.calls.append((key, ju[1], iv[1], task, late))
        wd = digest.hbytes(*[digest.hbytes(str(k), digest.deep(w[k]))
                             for k in sorted(w, key=str)])
        self.w_digests.setdefault(key, set()).add(wd)


def make_form(name, rec):
    f = getattr(integrands, name)
    if name == "mixed_stokes":
        def form5(u, p, v, q, w):
            rec.note((u, p, v, q, w))
            if rec.sched is not None:
                rec.sched.yield_point("kernel")
            return f(u, p, v, q, w)
        form5.__name__ = name
        return form5

    def form3(u, v, w):
        rec.note((u, v, w))
        if rec.sched is not None:
            rec.sched.yield_point("kernel")
        return f(u, v, w)
    form3.__name__ = name
    return form3


# ----------------------------------------------------------------- policies
def gen_policy(rng):
    kind = rng.choice(POLICIES)
    return {"kind": kind, "seed": rng.randrange(1 << 30),
            "p": rng.choice([0.5, 0.8, 0.95, 0.99]),
            "d": rng.randint(1, 4), "q": rng.choice([1, 2, 3, 7, 20, 60]),
            "patience": rng.choice([50, 500, 3000]),
            "victim": rng.randint(1, 4)}


def make_chooser(pol):
    """Seeded policy, made fair in the limit: once one task has been picked
    FAIR_AFTER times in a row although others could run, the rest of the run
    is scheduled uniformly at random.  Without this an (unrealistic) unfair
    schedule would let a correct busy-wait spin for ever and be misreported
    as a progress violation."""
    inner = _make_chooser(pol)
    frng = random.Random(pol["seed"] ^ 0x5F5F)
    st = {"last": None, "run": 0, "fair": False}

    def ch(s, opts, me, k):
        if st["fair"]:
            return frng.choice(opts)
        nxt = inner(s, opts, me, k)
        if nxt == st["last"]:
            st["run"] += 1
            if st["run"] > FAIR_AFTER:
                st["fair"] = True
        else:
            st["last"], st["run"] = nxt, 0
        return nxt
    return ch


FAIR_AFTER = 4000


def _make_chooser(pol):
    rng = random.Random(pol["seed"])
    kind = pol["kind"]
    st = {"prio": {}, "since": 0, "starved": 0, "last": None}

    def fair(opts):
        return rng.choice(opts)

    if kind == "random":
        return lambda s, opts, me, k: fair(opts)
    if kind == "sticky":
        p = pol["p"]
        return lambda s, opts, me, k: (me if me in opts and rng.random() < p
                                       else fair(opts))
    if kind == "kernel-coarse":
        def ch(s, opts, me, k):
            if k not in ("kernel", "end", "block", "start") and me in opts:
                return me
            return fair(opts)
        return ch
    if kind == "roundrobin":
        q = pol["q"]

        def ch(s, opts, me, k):
            st["since"] += 1
            if me in opts and st["since"] < q:
                return me
            st["since"] = 0
            later = [o for o in opts if o > me]
            return min(later) if later else min(opts)
        return ch
    if kind == "pct":
        d = pol["d"]
        change = set(rng.sample(range(1, 4000), d))

        def ch(s, opts, me, k):
            for o in opts:
                if o not in st["prio"]:
                    st["prio"][o] = rng.random() + 1.0
            if s.choice_points in change and me in st["prio"]:
                st["prio"][me] = min(st["prio"].values()) - 1.0
            return max(opts, key=lambda o: (st["prio"][o], -o))
        return ch
    if kind == "reverse":
        # highest id first: the last-created worker runs to completion first
        return lambda s, opts, me, k: (max(opts) if rng.random() < 0.97
                                       else fair(opts))
    # starvation family (bounded patience keeps the schedule fair in the
    # limit, so a busy-wait in the code under test still terminates)
    patience = pol["patience"]
    if kind == "starve-main":
        victim = lambda s: 0
    elif kind == "starve-worker":
        victim = lambda s: pol["victim"]
    elif kind == "main-first":
        victim = None
    else:
        raise ValueError(kind)

    def ch(s, opts, me, k):
        if victim is None:
            # main runs whenever it can; workers otherwise
            if 0 in opts and st["starved"] < patience:
                st["starved"] += 1 if len(opts) > 1 else 0
                return 0
            return fair(opts)
        vt = victim(s)
        if vt in opts and len(opts) > 1 and st["starved"] < patience:
            st["starved"] += 1
            rest = [o for o in opts if o != vt]
            return me if me in rest and rng.random() < 0.7 else fair(rest)
        return fair(opts)
    return ch


def replay_chooser(decisions, overrides=None):
    it = {"i": 0}

    if overrides is None:
        def ch(s, opts, me, k):
            i = it["i"]
            it["i"] += 1
            if i < len(decisions):
                return decisions[i]
            return me if me in opts else min(opts)
        return ch

    def ch2(s, opts, me, k):
        i = it["i"]
        it["i"] += 1
        want = overrides.get(i)
        if want is not None and want in opts:
            return want
        return me if me in opts else min(opts)
    return ch2


# ----------------------------------------------------------------- one run
def _traced_prefixes():
    repo = os.environ.get("VERIF_REPO", "/repo")
    return (os.path.join(os.path.realpath(repo), "skfem") + os.sep,
            os.path.realpath(integrands.__file__))


def execute(wl, chooser, strict, policy=None, max_steps=600000):
    """Build, run serial reference, run threaded under the scheduler, check."""
    import skfem.assembly.form.bilinear_form as bf
    b = build_workload(wl)
    stats = {"steps": 0, "faults": {}, "probes": {}, "swarm": {}}
    probes = stats["probes"]
    # ---- serial reference (no simulation)
    rec0 = Recorder(b, None)
    in0 = input_digest(b)
    serial = call_entry(wl, b, make_form(wl["integrand"], rec0), 0)
    if input_digest(b) != in0:
        # serial assembly itself modified inputs: outside C16's comparison,
        # but it would poison the reference; report as harness-level note
        probes["serial-modified-inputs"] = 1
    serial_pairs = sorted((c[0], c[1], c[2]) for c in rec0.calls)

    # ---- simulated threaded run
    sched = Scheduler(chooser, _traced_prefixes(), max_steps=max_steps,
                      strict=strict)
    fac = SimThreadFactory(sched)
    rec = Recorder(b, sched)
    form_fn = make_form(wl["integrand"], rec)
    in1 = input_digest(b)

    def on_kind(kind, me):
        if kind == "block" and me == 0 and not rec.calls:
            sched.stats["main_blocked_before_any_kernel"] = 1
    sched.on_kind = on_kind
    violation = None
    saved = (bf.Thread, threading.Thread, _time.sleep)
    bf.Thread = fac.cls
    threading.Thread = fac.cls
    _time.sleep = sched.sleep
    result = None
    try:
        sched.begin()
        try:
            result = call_entry(wl, b, form_fn, b.nthreads)
        finally:
            sched.end()
    except SimViolation as v:
        violation = {"class": v.cls, "detail": v.detail}
    except Diverged as d:
        return {"harness_error": "replay diverged: %s" % d}
    except Exception as e:
        # the threaded path raised where the serial path did not
        violation = {"class": "O1-threaded-raised",
                     "detail": {"exception": "%s: %s" % (type(e).__name__, e)}}
    finally:
        sys.settrace(None)
    late_tasks = 0
    try:
        late_tasks = sched.drain()
    except SimViolation as v:
        if violation is None:
            violation = {"class": v.cls, "detail": v.detail}
    finally:
        bf.Thread, threading.Thread, _time.sleep = saved
        sys.settrace(None)

    in2 = input_digest(b)
    ntasks = len(sched.tasks) - 1
    calls = rec.calls
    # ---- oracles
    if violation is None and result is not None:
        diff = digest.first_diff(serial, result)
        if diff is not None:
            violation = {"class": "O1-matrix-differs",
                         "detail": {"first_difference": diff,
                                    "serial": serial, "threaded": result}}
    thr_pairs = sorted((c[0], c[1], c[2]) for c in calls)
    if violation is None and rec.unidentified == 0 and rec0.unidentified == 0:
        if thr_pairs != serial_pairs:
            from collections import Counter
            cs, ct = Counter(serial_pairs), Counter(thr_pairs)
            missing = sorted((cs - ct).elements())[:5]
            extra = sorted((ct - cs).elements())[:5]
            violation = {"class": "O2-not-exactly-once",
                         "detail": {"missing": missing, "extra": extra,
                                    "expected": len(serial_pairs),
                                    "got": len(thr_pairs)}}
    if violation is None and rec.unidentified == 0:
        owner = {}
        for key, j, i, task, late in calls:
            # 'twice' runs two assemblies with the same key: ownership is
            # per assembly, and tasks are never reused, so include the
            # repetition number
            owner.setdefault((key, j, i), []).append(task)
        # within one assembly each pair has one owner; the same pair in a
        # later assembly (twice) belongs to another task -> allowed count =
        # serial multiplicity
        from collections import Counter
        cs = Counter(serial_pairs)
        for pr, tasks in owner.items():
            if len(tasks) > cs.get(pr, 0):
                violation = {"class": "O3-ownership-overlap",
                             "detail": {"pair": pr, "tasks": tasks}}
                break
    if violation is None and any(c[4] for c in calls):
        violation = {"class": "O5-late-work-after-return",
                     "detail": {"late_calls": sum(1 for c in calls if c[4]),
                                "unfinished_tasks_at_return": late_tasks}}
    if violation is None and in2 != in1:
        violation = {"class": "O4-inputs-modified", "detail": {}}
    if violation is None:
        for key, ds in rec.w_digests.items():
            if len(ds) > 1:
                violation = {"class": "O4-parameter-dict-modified",
                             "detail": {"assembly": key,
                                        "distinct_w_digests": len(ds)}}
                break
    if violation is None:
        for key, ds in rec.w_digests.items():
            d0 = rec0.w_digests.get(key)
            if d0 is not None and len(d0) == 1 and ds != d0:
                violation = {"class": "O4-parameter-dict-differs-from-serial",
                             "detail": {"assembly": key}}
                break
    if violation is not None:
        violation["at"] = sched.steps
        violation["signature"] = "%s/threaded-assemble" % violation["class"]

    # ---- stats / probes
    stats["steps"] = sched.steps
    stats["faults"] = {
        "context-switch": sched.switches,
        "join-timeout-fired": sched.stats["timeouts_fired"],
        "virtual-sleep": sched.stats["sleeps"],
    }
    workers_with_calls = len({c[3] for c in calls if c[3] != 0})
    order = [(c[3], c[1], c[2]) for c in calls]
    interleaved = 0
    last_by_task = {}
    seen_other_since = False
    # interleaving: some task's kernel calls are separated by another task's
    prev = None
    finished = set()
    for tsk, j, i in order:
        if prev is not None and tsk != prev and tsk in last_by_task:
            interleaved = 1
        last_by_task[tsk] = True
        prev = tsk
    probes.update({
        "workers>=2-evaluating": int(workers_with_calls >= 2),
        "kernel-calls-interleaved": interleaved,
        "empty-share-worker": int(ntasks > 0 and b.nthreads > b.npairs),
        "rectangular-local-matrix": int(b.Nu != b.Nv),
        "nthreads==1": int(b.nthreads == 1),
        "late-tasks-drained": int(late_tasks > 0),
        "worker-exceptions": sched.stats["worker_exceptions"],
        "unidentified-pairs": int(rec.unidentified > 0),
        "main-blocked-in-join-before-any-kernel-ran":
            sched.stats["main_blocked_before_any_kernel"],
        "switch-between-kernel-return-and-store":
            int(sched.stats["switch_between_compute_and_store"] > 0),
        "multi-assembly-entry": int(len({c[0] for c in calls}) > 1
                                    or wl["entry"] in ("twice", "reuse")),
        "form-object-reused-with-swapped-shapes":
            int(wl["entry"] == "reuse" and b.Nu != b.Nv),
    })
    stats["swarm"] = {"policy": (policy or {}).get("kind", "replay"),
                      "cell": wl["cell"], "basis": b.kind,
                      "entry": wl["entry"], "dtype": wl["dtype"],
                      "integrand": wl["integrand"],
                      "nthreads_mode": wl["nthreads"].get("mode", "fixed"),
                      "elems": wl["elem_u"] + "x" + wl["elem_v"]}
    kern_order = digest.hbytes(repr(order))
    sched_dig = digest.hbytes(repr(sched.decisions))
    cfg_dig = digest.jdigest(wl)
    keys = {"kernel_orders": [digest.hbytes(cfg_dig, kern_order)],
            "schedules": [digest.hbytes(cfg_dig, sched_dig)],
            "configs": [cfg_dig]}
    if interleaved and workers_with_calls >= 2:
        keys["nontrivial"] = [digest.hbytes(cfg_dig, sched_dig)]
    log_digest = digest.hbytes(cfg_dig, sched_dig, kern_order,
                               digest.jdigest(result), str(sched.steps),
                               repr(violation and violation["class"]))
    trace = {"workload": dict(wl, nthreads=dict(wl["nthreads"],
                                                fixed=b.nthreads)),
             "policy": policy, "decisions": list(sched.decisions),
             "info": {"nthreads": b.nthreads, "pairs": b.npairs,
                      "cells": int(b.mesh.nelements), "steps": sched.steps,
                      "context_switches": sched.switches,
                      "kernel_order": [list(o) for o in order][:200]}}
    return {"trace": trace, "violation": violation, "stats": stats,
            "log_digest": log_digest, "keys": keys}


# ----------------------------------------------------------------- engine API
def plan(prop, tier):
    if tier == "thorough":
        return {"runs": 60000, "budget_s": 900, "timeout_s": 120,
                "selfcheck_runs": 24}
    return {"runs": 3200, "budget_s": 75, "timeout_s": 90, "selfcheck_runs": 8}


# A fixed tiny configuration used as a saturation probe: P1 x P1 on one
# triangle, 2 workers.  9 local pairs are split 5 + 4, so at kernel
# granularity exactly C(9, 4) = 126 interleavings exist; every 5th run samples
# one of them (policy: uniform choice at kernel boundaries) and the evidence
# reports how many of the 126 were reached.
TINY = {"mesh": {"family": "tri-fan", "n": 1, "seed": 1, "perm": False,
                 "jiggle": 0.0, "order": 1},
        "elem_u": "P1", "elem_v": "P1", "cell": "tri", "basis": "cell",
        "integrand": "mass_nonsym", "dtype": "float64", "coef": None,
        "entry": "assemble", "intorder": 2, "subset_seed": 3, "data_seed": 4,
        "seq": None, "nthreads": {"mode": "fixed", "r": 0, "fixed": 2}}
TINY_TOTAL = 126


def run(prop, rseed, tier, k):
    rng = prng.pyrng(rseed)
    wl = gen_workload(rng)
    pol = gen_policy(rng)
    if k % 5 == 4:
        wl = dict(TINY)
        pol = dict(pol, kind="kernel-coarse")
        out = execute(wl, make_chooser(pol), strict=False, policy=pol)
        if "keys" in out:
            # one triangle of the fan is used: restrict keeps the first 16
            # cells, the fan has 3; the kernel order is what matters
            order = out["trace"]["info"]["kernel_order"]
            out["keys"]["tiny_kernel_orders"] = [digest.hbytes(repr(order))]
        return out
    return execute(wl, make_chooser(pol), strict=False, policy=pol)


def replay(trace):
    return execute(trace["workload"], replay_chooser(trace["decisions"]),
                   strict=True, policy=trace.get("policy"))


def sample_view(trace):
    """Evidence samples: the decision list can have 10^5 entries; keep its
    head and say how long it was."""
    t = dict(trace)
    d = t.get("decisions", [])
    if len(d) > 120:
        t["decisions"] = d[:120] + ["... (%d decisions in total)" % len(d)]
    info = dict(t.get("info", {}))
    ko = info.get("kernel_order", [])
    if len(ko) > 40:
        info["kernel_order"] = ko[:40] + ["..."]
    t["info"] = info
    return t


def trace_len(trace):
    d = trace.get("decisions", [])
    return len(d)


def _lenient(wl, overrides):
    return execute(wl, replay_chooser(None, overrides), strict=False,
                   policy={"kind": "minimised"})


def shrink(trace, violation, exec_iso):
    """(1) simplify the workload under re-searched schedules, (2) ddmin over
    the context switches of the schedule."""
    from ..core import pool
    sig = violation["signature"]
    wl = trace["workload"]

    def same(out):
        return (out is not None and "harness_error" not in out
                and out.get("violation") is not None
                and out["violation"]["signature"] == sig)

    def iso(fn, arg):
        return pool.run_isolated(fn, arg, 120)

    # (1) workload simplification: try simpler variants, a few schedules each
    def try_variant(w2):
        for s in range(12):
            pol = {"kind": ["random", "sticky", "kernel-coarse", "starve-main",
                            "reverse", "main-first"][s % 6],
                   "seed": 1000 + s, "p": 0.9, "d": 2, "q": 3,
                   "patience": 500, "victim": 1}
            out = iso(lambda a: execute(a[0], make_chooser(a[1]), False, a[1]),
                      (w2, pol))
            if same(out):
                return out
        return None

    best = None
    cur = dict(wl)
    variants = []
    for nth in (2, 3):
        if cur["nthreads"].get("fixed", 99) > nth:
            variants.append(("nthreads", {"mode": "fixed", "r": 0, "fixed": nth}))
    variants += [("entry", "assemble"), ("basis", "cell"),
                 ("integrand", "mass"), ("dtype", "float64"),
                 ("elem_v", cur["elem_u"]),
                 ("mesh", dict(cur["mesh"], n=1, perm=False, jiggle=0.0))]
    for key, val in variants:
        w2 = dict(cur)
        w2[key] = val
        if key == "integrand":
            w2["coef"] = None
        if w2 == cur:
            continue
        try:
            out = try_variant(w2)
        except Exception:
            out = None
        if out is not None:
            cur = out["trace"]["workload"]
            best = out
    base = best["trace"] if best is not None else trace
    wl = base["workload"]
    decisions = base["decisions"]

    # (2) schedule ddmin: overrides = choice points where the decision was a
    # real switch away from the default (keep running / lowest id)
    first = iso(lambda a: _lenient(a[0], a[1]),
                (wl, {i: d for i, d in enumerate(decisions)}))
    if not same(first):
        return base
    items = list(enumerate(decisions))

    def test(sub):
        out = iso(lambda a: _lenient(a[0], a[1]), (wl, dict(sub)))
        return same(out)

    small, _ = ddmin(items, test, budget=250)
    out = iso(lambda a: _lenient(a[0], a[1]), (wl, dict(small)))
    if same(out):
        return out["trace"]
    return base


def describe(prop):
    return {
        "technique": "deterministic simulation: seeded schedules of the real "
                     "worker threads (baton passing + sys.settrace "
                     "pre-emption), serial assembly as reference model",
        "rule": "one evaluation = one seeded (workload, scheduler policy) "
                "pair executed under the baton-passing scheduler and compared "
                "with serial assembly; distinct_nontrivial counts distinct "
                "(workload configuration, full step-level decision sequence) "
                "pairs in which at least two workers evaluated kernels and "
                "their kernel invocations interleaved. Saturation probe: "
                "every 5th run is the fixed tiny configuration (P1 x P1, one "
                "cell block, 2 workers, 9 pairs split 5 + 4) for which "
                "exactly 126 kernel-granularity interleavings exist; "
                "coverage.distinct.tiny_kernel_orders says how many of them "
                "this run reached",
        "simulated_time": "logical scheduler steps only; the system under "
                          "test has no timers. The virtual sleep/join-timeout "
                          "clock exists and stayed at zero unless "
                          "faults_fired says otherwise",
        "faults_not_applicable": [
            "message loss/duplication/reordering (no network)",
            "partition/heal (no peers)", "crash-restart with durable state "
            "(assembly has no durable state)", "clock skew (no clock read)",
            "disk faults (no I/O in assembly)"],
        "components": {
            "real": ["skfem.assembly.form.bilinear_form.BilinearForm._assemble"
                     " / _threaded_kernel / _kernel", "Form._normalize_asm_kwargs",
                     "COOData", "skfem.assembly.asm", "CellBasis/FacetBasis/"
                     "InteriorFacetBasis", "NumPy/SciPy", "OS threads (one "
                     "unparked at a time)"],
            "stubbed": ["threading.Thread and bilinear_form.Thread -> SimThread"
                        " (real thread, scheduler-owned start/join/is_alive)",
                        "time.sleep -> virtual clock + yield",
                        "choice of who runs next -> seeded policy"]},
        "assumptions": [
            "pre-emption granularity is Python line/call/return events in "
            "skfem frames and the integrand; races inside one NumPy call are "
            "not reachable",
            "bit-equality with serial is sound because each slot is computed "
            "by the same expression on the same operands and COO->CSR "
            "summation order is schedule independent",
            "blocking primitives other than Thread.start/join/is_alive and "
            "time.sleep are not virtualised: a change that introduces them is "
            "reported as a harness timeout, never as a pass"],
    }
