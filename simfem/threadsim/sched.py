"""Deterministic baton-passing scheduler for real threads.

Every simulated task (the caller = task 0, and each ``SimThread``) is a real
OS thread that runs only while it holds the single baton; everybody else is
parked on a private semaphore.  Pre-emption points are (a) ``sys.settrace``
call/line/return/exception events in frames whose code lives under the
repository's ``skfem`` package or in the workload's integrand module, (b)
``start``/``join``/``is_alive``/``sleep``, (c) task begin and task end.  At a
pre-emption point the scheduler consults a *chooser* (seeded policy, or a
recorded decision list when replaying) for who runs next.

Only the baton holder ever touches scheduler state, so the scheduler itself
needs no locks; the semaphores give the necessary happens-before edges.
"""
import sys
import threading
import time as _time

_RealThread = threading.Thread
_real_sleep = _time.sleep

NEW, RUNNABLE, BLOCKED, DONE = "new", "runnable", "blocked", "done"


class SimViolation(Exception):
    def __init__(self, cls, detail=None):
        super().__init__(cls)
        self.cls = cls
        self.detail = detail or {}


class Diverged(Exception):
    pass


class Task:
    __slots__ = ("tid", "sem", "state", "wait_for", "timeout_at", "thread",
                 "exc", "timed_out", "steps")

    def __init__(self, tid):
        self.tid = tid
        self.sem = threading.Semaphore(0)
        self.state = NEW
        self.wait_for = None
        self.timeout_at = None
        self.thread = None
        self.exc = None
        self.timed_out = False
        self.steps = 0


class Scheduler:
    def __init__(self, chooser, traced_prefixes, max_steps=200000,
                 strict=True):
        self.chooser = chooser
        self.traced_prefixes = tuple(traced_prefixes)
        self.max_steps = max_steps
        self.strict = strict
        self.tasks = [Task(0)]
        self.tasks[0].state = RUNNABLE
        self.cur = 0
        self.steps = 0
        self.choice_points = 0
        self.decisions = []          # chosen task at each choice point
        self.switches = 0
        self.clock = 0.0             # virtual seconds
        self.active = False
        self.draining = False
        self.failure = None          # SimViolation raised in a worker context
        self.events = []             # (step, task, kind) for kernel-level log
        self.stats = {"timeouts_fired": 0, "sleeps": 0, "starts": 0,
                      "joins": 0, "max_live": 0, "worker_exceptions": 0,
                      "switch_between_compute_and_store": 0,
                      "main_blocked_before_any_kernel": 0}
        self._code_cache = {}
        self.on_kind = None          # optional callback(kind) for probes

    # ------------------------------------------------------------ tracing
    def _is_traced(self, code):
        r = self._code_cache.get(code)
        if r is None:
            fn = code.co_filename
            r = fn.startswith(self.traced_prefixes)
            self._code_cache[code] = r
        return r

    def _global_trace(self, frame, event, arg):
        if not self.active:
            return None
        if self._is_traced(frame.f_code):
            self.yield_point("call")
            return self._local_trace
        return None

    def _local_trace(self, frame, event, arg):
        if self.active:
            if event == "return":
                self.yield_point("return:" + frame.f_code.co_name)
            else:
                self.yield_point(event)
        return self._local_trace

    # ------------------------------------------------------------ core
    def options(self):
        """Task ids that may run next.  A task blocked in join(timeout) is an
        option too: choosing it fires the timeout."""
        out = []
        for t in self.tasks:
            if t.state == RUNNABLE:
                out.append(t.tid)
            elif t.state == BLOCKED and t.timeout_at is not None:
                out.append(t.tid)
        return out

    def _pick(self, opts, kind):
        me = self.cur
        if len(opts) == 1:
            return opts[0]
        self.choice_points += 1
        nxt = self.chooser(self, opts, me, kind)
        if nxt not in opts:
            if self.strict:
                raise Diverged("decision %r not in options %r at choice %d"
                               % (nxt, opts, self.choice_points))
            nxt = me if me in opts else opts[0]
        self.decisions.append(nxt)
        return nxt

    def _activate(self, tid):
        """Make tid the baton holder (handles timeout firing)."""
        t = self.tasks[tid]
        if t.state == BLOCKED:
            # timeout fires
            self.clock = max(self.clock, t.timeout_at)
            t.timed_out = True
            t.state = RUNNABLE
            t.wait_for = None
            t.timeout_at = None
            self.stats["timeouts_fired"] += 1
        self.cur = tid

    def _park(self, me):
        self.tasks[me].sem.acquire()
        if self.failure is not None and me == 0:
            f, self.failure = self.failure, None
            raise f

    def yield_point(self, kind):
        if not self.active:
            return
        me = self.cur
        self.steps += 1
        self.tasks[me].steps += 1
        if self.on_kind is not None:
            self.on_kind(kind, me)
        if self.steps > self.max_steps:
            self._fail(SimViolation("O6-step-budget-exceeded",
                                    {"steps": self.steps}))
            return
        opts = self.options()
        if not opts:
            self._fail(SimViolation("O6-deadlock", {"at_step": self.steps}))
            return
        nxt = self._pick(opts, kind)
        if nxt != me:
            self.switches += 1
            if kind == "return:_kernel":
                self.stats["switch_between_compute_and_store"] += 1
            self._activate(nxt)
            self.tasks[nxt].sem.release()
            self._park(me)
        elif self.tasks[me].state == BLOCKED:
            self._activate(me)

    def _fail(self, viol):
        """Report a scheduler-level violation to the main task."""
        if self.cur == 0:
            raise viol
        # a worker noticed: hand the baton to main with the failure attached;
        # this worker parks forever (process exits at end of run).
        self.failure = viol
        self.active = False
        self.cur = 0
        self.tasks[0].sem.release()
        threading.Semaphore(0).acquire()

    # ------------------------------------------------------------ thread API
    def spawn(self, simthread):
        t = Task(len(self.tasks))
        t.state = NEW
        self.tasks.append(t)
        return t

    def start(self, task, body):
        if task.state != NEW:
            raise RuntimeError("threads can only be started once")
        sched = self

        def bootstrap():
            task.sem.acquire()            # wait for the baton
            if sched.active or sched.draining:
                sys.settrace(sched._global_trace)
            try:
                try:
                    body()
                except SimViolation as v:  # pragma: no cover
                    sched.failure = v
                except BaseException as e:
                    # threading.excepthook semantics: report and swallow
                    task.exc = e
                    sched.stats["worker_exceptions"] += 1
            finally:
                sys.settrace(None)
                sched._finish(task)

        th = _RealThread(target=bootstrap, daemon=True)
        task.thread = th
        task.state = RUNNABLE
        self.stats["starts"] += 1
        live = sum(1 for x in self.tasks[1:] if x.state in (RUNNABLE, BLOCKED))
        self.stats["max_live"] = max(self.stats["max_live"], live)
        th.start()
        self.yield_point("start")

    def _finish(self, task):
        """Called by the finishing task while it still holds the baton."""
        task.state = DONE
        for other in self.tasks:
            if other.state == BLOCKED and other.wait_for == task.tid:
                other.state = RUNNABLE
                other.wait_for = None
                other.timeout_at = None
        if not (self.active or self.draining):
            # simulation already over (failure path): wake main if parked
            return
        self.steps += 1
        opts = self.options()
        if not opts:
            self.failure = SimViolation("O6-deadlock",
                                        {"at_step": self.steps,
                                         "after_task_end": task.tid})
            self.active = False
            self.cur = 0
            self.tasks[0].sem.release()
            return
        try:
            nxt = self._pick(opts, "end")
        except Diverged as d:
            self.failure = d
            self.active = False
            self.cur = 0
            self.tasks[0].sem.release()
            return
        self.switches += 1
        self._activate(nxt)
        self.tasks[nxt].sem.release()

    def join(self, task, timeout=None):
        me = self.cur
        self.stats["joins"] += 1
        if not self.active:
            # outside simulation: busy-less wait is impossible; treat as done
            return
        if task.state == NEW:
            raise RuntimeError("cannot join thread before it is started")
        self.yield_point("join")
        if task.state == DONE:
            return
        if task.tid == me:
            raise RuntimeError("cannot join current thread")
        mt = self.tasks[me]
        mt.state = BLOCKED
        mt.wait_for = task.tid
        mt.timed_out = False
        mt.timeout_at = (self.clock + max(0.0, float(timeout))
                         if timeout is not None else None)
        self.steps += 1
        if self.on_kind is not None:
            self.on_kind("block", me)
        opts = self.options()
        if not opts:
            mt.state = RUNNABLE
            self._fail(SimViolation("O6-deadlock", {"at_step": self.steps,
                                                    "joining": task.tid}))
            return
        nxt = self._pick(opts, "block")
        if nxt == me:
            self._activate(me)     # timeout fires immediately
            return
        self.switches += 1
        self._activate(nxt)
        self.tasks[nxt].sem.release()
        self._park(me)

    def sleep(self, secs):
        self.stats["sleeps"] += 1
        self.clock += max(0.0, float(secs))
        self.yield_point("sleep")

    # ------------------------------------------------------------ lifecycle
    def begin(self):
        self.active = True
        sys.settrace(self._global_trace)

    def end(self):
        """Main calls this after the entry point returned."""
        sys.settrace(None)
        self.active = False

    def drain(self, max_steps=200000):
        """Run every unfinished task to completion (no tracing choice:
        lowest id first).  Returns number of tasks that were unfinished."""
        left = [t for t in self.tasks[1:] if t.state in (RUNNABLE, BLOCKED)]
        if not left:
            return 0
        n = len(left)
        self.draining = True
        old_chooser, old_strict = self.chooser, self.strict
        self.chooser = lambda s, opts, me, kind: (
            min(o for o in opts if o != 0) if any(o != 0 for o in opts)
            else opts[0])
        self.strict = False
        self.max_steps = self.steps + max_steps
        dec_len = len(self.decisions)
        try:
            while True:
                opts = [o for o in self.options() if o != 0]
                if not opts:
                    break
                nxt = min(opts)
                self._activate(nxt)
                self.tasks[nxt].sem.release()
                self._park(0)
        finally:
            self.draining = False
            self.chooser, self.strict = old_chooser, old_strict
            del self.decisions[dec_len:]
        return n


class SimThreadFactory:
    """Produces a ``threading.Thread`` look-alike bound to a scheduler."""

    def __init__(self, sched):
        self.sched = sched
        sched_ref = sched

        class SimThread:
            _sched = sched_ref

            def __init__(self, group=None, target=None, name=None, args=(),
                         kwargs=None, *, daemon=None):
                self._target = target
                self._args = tuple(args)
                self._kwargs = dict(kwargs or {})
                self._task = self._sched.spawn(self)
                self.name = name or "SimThread-%d" % self._task.tid
                self.daemon = bool(daemon)
                self.ident = None

            def run(self):
                if self._target is not None:
                    self._target(*self._args, **self._kwargs)

            def start(self):
                self.ident = self._task.tid
                self._sched.start(self._task, self.run)

            def join(self, timeout=None):
                self._sched.join(self._task, timeout)

            def is_alive(self):
                self._sched.yield_point("is_alive")
                return self._task.state in (RUNNABLE, BLOCKED)

            def setDaemon(self, d):
                self.daemon = d

            def isDaemon(self):
                return self.daemon

            def getName(self):
                return self.name

        self.cls = SimThread
