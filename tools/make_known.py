#!/usr/bin/env python3
"""Regenerate /verif/known_findings.jsonl from the table below (run by hand
after a fix: commit or when a finding is recorded; never at check time)."""
import json
import os
import subprocess

VERIF = os.path.dirname(os.path.dirname(os.path.abspath(__file__)))

# (property, status, commit-subject-prefix or None, tag, signature, what)
ROWS = [
    ("C15", "fixed", "fix: ElementGlobal recomputes", "F7",
     "H1-history-dependent/mk_basis/ElementGlobal-family",
     "one ElementGlobal-family element object (Morley, Argyris, Hermite, BFS, Quad2G, ...) used on a second mesh evaluated its basis with the first mesh's inverse Vandermonde matrix (or raised IndexError)"),
    ("C15", "fixed", "fix: ElementLinePp re-evaluates", "F6",
     "H1-history-dependent/elem_lbasis/ElementLinePp",
     "ElementLinePp.lbasis at a second point set of equal size returned the values of the first point set"),
    ("C15", "fixed", "fix: solver factories no longer", "F8",
     "H1-history-dependent/solve/solver",
     "solver objects from solver_eigen_scipy(_sym)/solver_direct_scipy/solver_iter_krylov/solver_iter_cg remembered per-call keyword arguments and the first matrix's preconditioner"),
    ("C15", "fixed", "fix: hash_args distinguishes", "F11",
     "H4-failure-parity/mk_basis/J-cache-key-collision",
     "MappingIsoparametric Jacobian cache keyed by bytes only: arrays of equal bytes but different shape/dtype collided (InteriorFacetBasis without interior facets built twice with different intorder raised ValueError)"),
    ("C12", "fixed", "fix: MeshLine1 uniform refinement", "F3",
     "tags-subdomain-not-children-of-old-cells/refine_uniform/MeshLine1",
     "MeshLine1.refined(k): subdomains propagated with the generic child map k, k+nt although the children are 2k, 2k+1"),
    ("C13", "fixed", "fix: MeshLine1 adaptive refinement remaps", "F2",
     "tags-subdomain-not-children-of-old-cells/refine_adaptive/MeshLine1",
     "MeshLine1.refined(marked): elements reordered (unmarked first) but subdomain indices kept"),
    ("C13", "fixed", "fix: MeshTet1 adaptive refinement carries", "F1",
     "tags-subdomain-not-children-of-old-cells/refine_adaptive/MeshTet1",
     "MeshTet1.refined(marked): subdomains (and boundaries) kept the indices of the unrefined mesh"),
    ("C13", "fixed", "fix: Mesh.refined warns", "F5a",
     "tags-subdomain-dropped-without-warning/refine_adaptive/*",
     "Mesh.refined tested self.subdomains instead of the result's: the 'subdomains invalidated' warning could never fire"),
    ("C12", "fixed", "fix: MeshTet2 refinement propagates", "F4",
     "tags-subdomain-not-children-of-old-cells/refine_uniform/MeshTet2",
     "MeshTet2.refined(k): generic child map used although MeshTet1._uniform groups children 4-7 by diagonal; MeshTet2.refined(marked) dropped subdomains silently"),
    ("C13", "fixed", "fix: MeshTri2 adaptive refinement", "F5b",
     "tags-subdomain-dropped-without-warning/refine_adaptive/MeshTri2",
     "MeshTri2.refined(marked) dropped named subdomains silently"),
    ("C18", "fixed", "fix: MeshQuad1.to_meshtri gives", "F12",
     "tags-index-array-not-integer/split/MeshQuad1",
     "to_meshtri turned a named boundary without facets into a float64 array; the next refined() raised IndexError"),
    ("C18", "fixed", "fix: Mesh.restrict keeps the non-vertex", "F13",
     "valid-second-order-node-count/restrict/Mesh*2",
     "restrict/remove_elements on MeshTri2/MeshQuad2/MeshTet2/MeshHex2 lost the non-vertex nodes: unusable mesh"),
    ("C18", "fixed", "fix: Mesh.remove_duplicate_nodes renumbers", "F14",
     "tags-boundary-designates-other-facets/clean_duplicate/*",
     "remove_duplicate_nodes kept boundary index arrays although merging vertices renumbers the facets"),
    ("C17", "fixed", "fix: decoding boundaries from cell data", "F10",
     "R1-orientation-differs/meshio-formats/*",
     "_decode_cell_data sorted facets but not their owner cells: orientations scrambled after vtk/vtu/msh round trips, plain interior boundaries came back with arbitrary flags"),
    ("C17", "fixed", "fix: Mesh.from_dict reads tag index arrays", "F15",
     "R1-save-raised/after-json-load/*",
     "from_dict turned an empty named boundary/subdomain into a float64 array; saving the loaded mesh raised IndexError"),
    ("C17", "fixed", "fix: dictionary/JSON and npz forms keep", "F9",
     "R1-orientation-differs/dict-json-npz/*",
     "to_dict/JSON/save_npz stored oriented boundaries as plain index lists: orientation flags lost"),
    ("C17", "fixed", "fix: decoding tags from cell data keeps tag names", "F18",
     "R1-subdomain-names-differ/meshio-formats/*",
     "tag names containing ':' (the library's gmsh loader produces 'gmsh:bounding_entities') were truncated at the first colon by _decode_cell_data"),
    ("C17", "fixed", "fix: tags encoded as point data have one value", "F20",
     "R1-save-raised/encode_point_data/Mesh*2",
     "Mesh.save(encode_point_data=True) raised ValueError for second-order meshes: the indicator arrays had nvertices entries instead of one per point"),
    ("C18", "fixed", "fix: MeshQuad1.to_meshtri(style='x') numbers", "F16",
     "nested-child-in-no-old-cell/split/MeshQuad1",
     "to_meshtri(style='x') numbered the new midpoints max(t)+1.. although they are appended at p.shape[1]..: wrong on a mesh whose point array ends with unused vertices (a part returned by `@`)"),
    ("C18", "fixed", "fix: MeshTri1 * MeshLine1 offsets", "F17",
     "valid-degenerate-cell/extrude/MeshTri1",
     "MeshTri1 * MeshLine1 offset the layers by nvertices = max(t)+1 although every layer appends p.shape[1] points: degenerate/inverted prisms on a mesh with trailing unused vertices"),
    ("C13", "fixed", "fix: MeshLine1 adaptive refinement numbers", "F19",
     "nested-child-in-no-old-cell/refine_adaptive/MeshLine1",
     "MeshLine1.refined(marked) numbered the new midpoints max(t)+1.. although they are appended at p.shape[1]..: wrong on a mesh whose point array ends with unused vertices"),
    ("C13", "fixed", "fix: MeshLine1 adaptive refinement accepts a marked array", "F21",
     "valid-duplicate-vertices/refine_adaptive/MeshLine1",
     "MeshLine1.refined(marked) with an element listed twice in the marked array bisected it twice (duplicate midpoints and elements); the triangle and tetrahedron code treat the array as a set"),
    ("C13", "fixed", "fix: MeshTet1 adaptive refinement enlarges its work arrays", "F22",
     "op-raised/refine_adaptive/MeshTet1",
     "MeshTet1.refined(marked) raised ValueError (fixed-size work arrays 8*nt / 9*nv / 8*nv) when the closure of a large marked set on a small mesh needs more than 8*nt elements; found once in 60000 thorough runs"),
    ("C13", "fixed", "fix: MeshTet1 adaptive refinement scales its tie-breaking", "F23",
     "conforming-hanging-node-or-hole/refine_adaptive/MeshTet1",
     "MeshTet1.refined(marked) on a mesh with coordinates of size 1000 (MeshTet.init_ball() in other units) returned a mesh with a hanging node: the noise that breaks ties between equally long edges had the absolute size 1e-10; 2 of 60000 thorough runs"),
    ("C18", "known", None, "K1",
     "conforming-hanging-node-or-hole/split/MeshHex1",
     "MeshHex1.to_meshtet on a mesh whose hexahedra do not all use the same local orientation (e.g. a file mesh; any of the 24 rotations of the reference numbering is admissible): the fixed 6-tetrahedra template cuts a shared quadrilateral face along different diagonals from its two sides, the tetrahedral mesh is not conforming"),
    ("C18", "known", None, "K2",
     "conforming-hanging-node-or-hole/split/MeshWedge1",
     "MeshWedge1.to_meshtet on a prism mesh whose local vertex order does not follow the global vertex numbering (meshes from MeshTri * MeshLine do): shared quadrilateral faces are cut along different diagonals, the tetrahedral mesh is not conforming"),
    ("C18", "known", None, "K3",
     "surgery-extrude-cell-count/extrude/MeshLine1",
     "MeshLine1 * MeshLine1 ignores the connectivity of its operands (init_tensor of the point coordinates): extruding a segment mesh with a gap (two components) fills the gap"),
]


ROWS += [
    ("C18", "known", None, "K4",
     "surgery-join-rounding-boundary-pair-not-merged/join/" + cls,
     "Mesh.__add__ merges vertices by equality after round(decimals=8): two coincident vertices whose coordinate sits on a rounding boundary (e.g. the midpoint x.xxxxxxxx5 of two already rounded coordinates, reached through two arithmetic paths one ulp apart) round to different values and stay unmerged - a crack along the interface. History: (a + b).refined() + translated copy. Found once in 60000 thorough runs")
    for cls in ("MeshLine1", "MeshTri1", "MeshQuad1", "MeshTet1", "MeshHex1",
                "MeshWedge1")
]


ROWS += [
    ("C15", "known", None, "K5",
     "H2s-sparse-storage-reordered/solve_system/" + subj,
     "solve(*mpc(A, b, S=..., M=...)) with the default direct solver: the "
     "matrix returned by mpc (skfem.utils.bmat -> scipy.sparse.bmat) is CSR "
     "with unsorted column indices; scipy.sparse.linalg.spsolve calls "
     "A.sum_duplicates() on the caller's object, which reorders A.indices and "
     "A.data of the operand in place. The matrix is the same entry for entry "
     "(only the storage order changes), but the operand's arrays are not "
     "bit-for-bit unchanged. Every other matrix scikit-fem hands out "
     "(assemble, condense, enforce, penalize) is already in canonical form "
     "and is left alone")
    for subj in ("-", "solver")
]


def main():
    log = subprocess.check_output(
        ["git", "-C", "/repo", "log", "--format=%H %s"], text=True).splitlines()
    out = []
    for prop, status, subj, tag, sig, what in ROWS:
        d = {"property": prop, "status": status, "tag": tag, "signature": sig,
             "what": what}
        if status == "fixed":
            hits = [l.split(" ", 1)[0] for l in log
                    if l.split(" ", 1)[1].startswith(subj)]
            assert len(hits) == 1, (subj, hits)
            d["commit"] = hits[0]
            d["text"] = "fixed: property=%s %s %s" % (prop, hits[0][:12], what)
        else:
            d["text"] = "known: property=%s %s" % (prop, what)
        out.append(d)
    with open(os.path.join(VERIF, "known_findings.jsonl"), "w") as f:
        for d in out:
            f.write(json.dumps(d) + "\n")
    print("known_findings.jsonl: %d fixed, %d known" % (
        sum(d["status"] == "fixed" for d in out),
        sum(d["status"] == "known" for d in out)))


if __name__ == "__main__":
    main()
