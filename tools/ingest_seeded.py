#!/venv/bin/python
"""Ingest a change written by an independent sub-agent (development tool).

    tools/ingest_seeded.py <worktree> <id> <property> [--skip-tests]

Confirms, in the agent's scratch worktree, that (1) the library still imports
and the existing test suite passes with the change, (2) the demonstration
fails with the change and passes without it; then stores patch.diff, demo.py,
MUTATION.md and meta.json under /verif/seeded/<id>/ and runs the quick and
(if that misses) a longer check of the property against a scratch copy of
/repo with the patch applied.  Nothing is ever applied to /repo itself.
"""
import argparse
import json
import os
import shutil
import subprocess
import sys
import tempfile
import time

VERIF = os.path.dirname(os.path.dirname(os.path.abspath(__file__)))
PY = "/venv/bin/python"


def sh(cmd, cwd=None, env=None, timeout=3600):
    p = subprocess.run(cmd, cwd=cwd, env=env, capture_output=True, text=True,
                       timeout=timeout)
    return p.returncode, p.stdout + p.stderr


def run_check_against(patch, prop, extra):
    scratch = tempfile.mkdtemp(prefix="skfem_seed_", dir="/tmp")
    try:
        shutil.copytree("/repo/skfem", os.path.join(scratch, "skfem"))
        rc, out = sh(["patch", "-p1", "-s", "-d", scratch, "-i", patch])
        if rc != 0:
            return {"error": "patch failed: " + out[-500:]}
        env = dict(os.environ, VERIF_REPO=scratch)
        t0 = time.time()
        rc, out = sh([PY, os.path.join(VERIF, "check.py"), prop,
                      "--no-evidence", "--no-selfcheck"] + extra, env=env)
        sigs = sorted({w.split("signature=")[1].split()[0]
                       for w in out.splitlines()
                       if w.startswith("VIOLATION") and "signature=" in w})
        summ = [l for l in out.splitlines() if l.startswith("summary")]
        return {"exit": rc, "signatures": sigs, "wall_s": round(time.time() - t0, 1),
                "summary": summ[-1] if summ else out[-400:]}
    finally:
        shutil.rmtree(scratch, ignore_errors=True)


def main():
    ap = argparse.ArgumentParser()
    ap.add_argument("worktree")
    ap.add_argument("id")
    ap.add_argument("prop")
    ap.add_argument("--skip-tests", action="store_true")
    ap.add_argument("--needs", default="")
    ap.add_argument("--benign", action="store_true",
                    help="behaviour-preserving change: the demonstration "
                         "passes with and without it, the checks must too")
    a = ap.parse_args()
    wt = a.worktree
    env = dict(os.environ, PYTHONPATH=wt)
    meta = {"id": a.id, "property": a.prop, "worktree": wt, "ran": []}
    rc, diff = sh(["git", "-C", wt, "diff", "--", "skfem"])
    if not diff.strip():
        print("no change under skfem/ in", wt)
        return 2
    # 1. demo with the change
    rc1, out1 = sh([PY, os.path.join(wt, "demo.py")], cwd=wt, env=env, timeout=900)
    meta["ran"].append({"cmd": "PYTHONPATH=<wt> python demo.py (with change)",
                        "exit": rc1, "tail": out1[-300:]})
    # 2. demo without the change
    # (not `git stash`: the stash is shared by all worktrees of /repo)
    tmpd = tempfile.mkdtemp(prefix="ingest_", dir="/tmp")
    pfile = os.path.join(tmpd, "change.diff")
    with open(pfile, "w") as f:
        f.write(diff)
    rcr, outr = sh(["git", "-C", wt, "apply", "-R", pfile])
    assert rcr == 0, outr
    try:
        rc0, out0 = sh([PY, os.path.join(wt, "demo.py")], cwd=wt, env=env,
                       timeout=900)
    finally:
        rca, outa = sh(["git", "-C", wt, "apply", pfile])
        assert rca == 0, outa
        shutil.rmtree(tmpd, ignore_errors=True)
    meta["ran"].append({"cmd": "git apply -R change.diff; python demo.py; "
                        "git apply change.diff (without change)",
                        "exit": rc0, "tail": out0[-300:]})
    # 3. test suite with the change
    if not a.skip_tests:
        rct, outt = sh([PY, "-m", "pytest", "-q", "-p", "no:cacheprovider",
                        "-n", "8", "--timeout=900", "tests", "--deselect",
                        "tests/test_mamba.py"], cwd=wt, env=env)
        last = [l for l in outt.splitlines() if " passed" in l or " failed" in l]
        meta["ran"].append({"cmd": "pytest -n 8 tests --deselect "
                            "tests/test_mamba.py (with change)", "exit": rct,
                            "result": last[-1] if last else outt[-300:]})
    else:
        rct = None
    if a.benign:
        ok = (rc1 == 0 and rc0 == 0 and (rct in (0, None)))
        meta["benign"] = True
    else:
        ok = (rc1 != 0 and rc0 == 0 and (rct in (0, None)))
    meta["confirmed"] = bool(ok)
    dst = os.path.join(VERIF, "seeded", a.id)
    os.makedirs(dst, exist_ok=True)
    with open(os.path.join(dst, "patch.diff"), "w") as f:
        f.write(diff)
    for fn in ("demo.py", "MUTATION.md"):
        if os.path.exists(os.path.join(wt, fn)):
            shutil.copy(os.path.join(wt, fn), os.path.join(dst, fn))
    meta["needs"] = a.needs
    # 4. our check against it
    res = run_check_against(os.path.join(dst, "patch.diff"), a.prop, [])
    meta["check_quick"] = res
    if a.benign:
        res2 = run_check_against(os.path.join(dst, "patch.diff"), a.prop,
                                 ["--runs", "8000", "--budget", "300"])
        meta["check_longer"] = res2
        meta["false_alarm"] = (res.get("exit") != 0 or res2.get("exit") != 0)
    elif res.get("exit") == 0:
        res2 = run_check_against(os.path.join(dst, "patch.diff"), a.prop,
                                 ["--runs", "12000", "--budget", "400"])
        meta["check_longer"] = res2
    meta["detected"] = (meta["check_quick"].get("exit") == 1 or
                        meta.get("check_longer", {}).get("exit") == 1)
    with open(os.path.join(dst, "meta.json"), "w") as f:
        json.dump(meta, f, indent=1)
    print(json.dumps({k: meta.get(k) for k in ("id", "property", "confirmed",
                                               "detected", "false_alarm",
                                               "check_quick")},
                     indent=1)[:1500])
    if "check_longer" in meta:
        print("longer:", json.dumps(meta["check_longer"])[:600])
    return 0


if __name__ == "__main__":
    sys.exit(main())
