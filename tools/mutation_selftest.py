#!/venv/bin/python
"""Sensitivity self-test (development tool, not a registered check).

For each patch in /verif/mutants/<prop>/ (or the ones named on the command
line): copy /repo/skfem to a scratch directory outside /repo and /verif,
apply the patch, run the check with VERIF_REPO pointing at the copy, compare
the exit status with the mutant's expectation, delete the copy.

    tools/mutation_selftest.py [--prop C16] [--only name] [--runs N] [--tier quick]
"""
import argparse
import json
import os
import shutil
import subprocess
import sys
import tempfile
import time

VERIF = os.path.dirname(os.path.dirname(os.path.abspath(__file__)))


def main():
    ap = argparse.ArgumentParser()
    ap.add_argument("--prop")
    ap.add_argument("--only")
    ap.add_argument("--runs", type=int)
    ap.add_argument("--budget", type=float)
    ap.add_argument("--tier", default="quick")
    ap.add_argument("--seed", type=int, default=0)
    ap.add_argument("--patch", help="explicit patch file (git apply -p1)")
    ap.add_argument("--expect", default="violation")
    a = ap.parse_args()
    idx = json.load(open(os.path.join(VERIF, "mutants", "index.json")))
    if a.patch:
        idx = [{"prop": a.prop, "name": os.path.basename(a.patch),
                "expect": a.expect, "path": a.patch}]
    rows = []
    for m in idx:
        if a.prop and m["prop"] != a.prop:
            continue
        if a.only and a.only not in m["name"]:
            continue
        patch = m.get("path") or os.path.join(VERIF, "mutants", m["prop"],
                                              m["name"] + ".diff")
        scratch = tempfile.mkdtemp(prefix="skfem_mut_", dir="/tmp")
        try:
            shutil.copytree("/repo/skfem", os.path.join(scratch, "skfem"))
            p = subprocess.run(["patch", "-p1", "-s", "-d", scratch, "-i",
                                patch], capture_output=True, text=True)
            if p.returncode != 0:
                rows.append((m["prop"], m["name"], "PATCH-FAILED", 0,
                             p.stdout + p.stderr))
                continue
            env = dict(os.environ, VERIF_REPO=scratch)
            cmd = [sys.executable, os.path.join(VERIF, "check.py"), m["prop"],
                   "--tier", a.tier, "--seed", str(a.seed), "--no-evidence",
                   "--no-selfcheck"]
            if a.runs:
                cmd += ["--runs", str(a.runs)]
            if a.budget:
                cmd += ["--budget", str(a.budget)]
            t0 = time.time()
            r = subprocess.run(cmd, capture_output=True, text=True, env=env,
                               timeout=3600)
            dt = time.time() - t0
            want = 1 if m["expect"] == "violation" else 0
            ok = r.returncode == want or (m["expect"] == "rare"
                                          and r.returncode in (0, 1))
            sigs = sorted({w.split("signature=")[1].split()[0]
                           for w in r.stdout.splitlines()
                           if w.startswith("VIOLATION") and "signature=" in w})
            rows.append((m["prop"], m["name"],
                         "ok" if ok else "MISSED" if want == 1 else "FALSE-ALARM",
                         dt, "exit=%d %s" % (r.returncode, ",".join(sigs))))
            if not ok:
                print(r.stdout[-3000:])
                print(r.stderr[-2000:])
        finally:
            shutil.rmtree(scratch, ignore_errors=True)
        print("%-4s %-42s %-11s %6.1fs %s" % rows[-1], flush=True)
    bad = [r for r in rows if r[2] != "ok"]
    print("mutants: %d run, %d as expected, %d not" % (
        len(rows), len(rows) - len(bad), len(bad)))
    return 1 if bad else 0


if __name__ == "__main__":
    sys.exit(main())
