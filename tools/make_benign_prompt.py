#!/usr/bin/env python3
"""Brief for a sub-agent that writes a BEHAVIOUR-PRESERVING change (the
property still holds): used to look for false alarms of the checks.

    tools/make_benign_prompt.py <property> <tag>
"""
import json
import os
import subprocess
import sys

VERIF = os.path.dirname(os.path.dirname(os.path.abspath(__file__)))


def main():
    pid, tag = sys.argv[1:3]
    props = {json.loads(l)["id"]: json.loads(l)
             for l in open(os.path.join(VERIF, "properties.jsonl"))}
    p = props[pid]
    wt = "/tmp/wt_%s_%s" % (pid, tag)
    if not os.path.exists(wt):
        subprocess.check_call(["git", "-C", "/repo", "worktree", "add",
                               "--detach", wt, "HEAD"],
                              stdout=subprocess.DEVNULL,
                              stderr=subprocess.DEVNULL)
    prompt = f"""You are helping to evaluate a verification tool for the Python library scikit-fem (kinnala/scikit-fem). The tool checks the semantic property below. We want to know whether the tool raises FALSE ALARMS, i.e. whether it complains about code for which the property still holds. Your job: make a substantial but BEHAVIOUR-PRESERVING change to the code that implements this property - a refactoring, an optimisation, or a different-but-equally-valid algorithm - such that the property STILL HOLDS exactly as stated, while as many incidental details as possible change.

Your private scratch git worktree of the repository is at: {wt}
Work ONLY inside that directory. Do not touch /repo, and do not look at or use anything under /verif. The Python interpreter is /venv/bin/python; run with PYTHONPATH={wt} so that YOUR worktree is imported (check: PYTHONPATH={wt} /venv/bin/python -c "import skfem; print(skfem.__file__)").

THE PROPERTY (id {pid}): {p['title']}

Statement: {p['statement']}

It is quantified over: {p['quantifier']['text']}

Relevant code: {', '.join(p['anchors']['files'])}

WHAT TO CHANGE - incidental details that the statement does NOT prescribe. Examples (pick several that apply to this property, the more the better, but the property must keep holding):
- the ORDER in which new entities (cells, vertices, facets) are numbered where the statement does not fix it, with every index map / tag propagation updated consistently;
- which worker thread computes which part, how work is chunked, whether the calling thread takes a share, the order of starts/joins (as long as all are joined);
- the dtype (int32 vs int64) or the ORDER (sorted vs unsorted) of index arrays stored in tags, as long as they designate the same entity sets;
- caching that is CORRECT (keyed by everything the result depends on), copying vs. views where nothing is written afterwards;
- the order of floating-point operations is better left alone where results are compared bit-for-bit between two code paths of the library (e.g. threaded vs serial assembly must stay bit-identical to EACH OTHER, but both may change together);
- how files are written (temporary file + rename, different but valid encoding of the same information, different default variant) as long as save/load round-trips everything the statement names;
- emitting additional log messages or warnings; raising the same exception types in the same situations.

REQUIREMENTS
1. The property must still hold for ALL inputs/histories/schedules it is quantified over. Think hard about corner cases (empty selections, single cells, second-order classes, arbitrary numberings, tags on interior facets, etc.). If in doubt, change less.
2. The existing test suite must pass: from inside {wt} run  PYTHONPATH={wt} /venv/bin/python -m pytest -q -p no:cacheprovider -x -n 4 --timeout=900 tests --deselect tests/test_mamba.py  (1-3 minutes; tests/test_mamba.py fails for an unrelated reason and is deselected).
3. Write {wt}/demo.py: a self-contained script (numpy/scipy/skfem/meshio/stdlib only) that checks the property on a good variety of inputs and exits 0 when it holds, non-zero otherwise. It must exit 0 BOTH with and without your change (verify with git stash / git stash pop). Run as: PYTHONPATH={wt} /venv/bin/python {wt}/demo.py
4. Write {wt}/MUTATION.md: what you changed, which incidental details now differ, and your argument why the property still holds.

Leave your change UNCOMMITTED in the worktree, demo.py and MUTATION.md untracked. Reply with a short summary of what changed and the two demo exit codes.
"""
    os.makedirs("/tmp/agent_prompts", exist_ok=True)
    out = "/tmp/agent_prompts/%s_%s.txt" % (pid, tag)
    open(out, "w").write(prompt)
    print(out)


if __name__ == "__main__":
    main()
