#!/venv/bin/python
"""Run one seeded run of a property in isolation and print its outcome
(development aid).  usage: debug_run.py PROP K [SEED] [--twice]"""
import json, os, sys
for _v in ("OMP_NUM_THREADS", "OPENBLAS_NUM_THREADS", "MKL_NUM_THREADS"):
    os.environ[_v] = "1"
VERIF = os.path.dirname(os.path.dirname(os.path.abspath(__file__)))
REPO = os.path.realpath(os.environ.get("VERIF_REPO", "/repo"))
os.environ["VERIF_REPO"] = REPO
sys.path.insert(0, VERIF); sys.path.insert(0, REPO)
sys.argv[0] = os.path.join(VERIF, "check.py")
import importlib.util
spec = importlib.util.spec_from_file_location("check", os.path.join(VERIF, "check.py"))
prop, k = sys.argv[1], int(sys.argv[2])
seed = int(sys.argv[3]) if len(sys.argv) > 3 and sys.argv[3].isdigit() else 0
from simfem.core import prng, pool
if prop == "C16":
    from simfem.threadsim import engine
elif prop == "C15":
    from simfem.histsim import engine
elif prop == "C17":
    from simfem.iosim import engine
else:
    from simfem.lineage import engine
def one(k):
    return engine.run(prop, prng.run_seed(seed, prop, k), "quick", k)
for rep in range(2 if "--twice" in sys.argv else 1):
    out = pool.run_isolated(one, k, 300)
    if "harness_error" in out:
        print("HARNESS", out["harness_error"], out.get("traceback", ""))
        continue
    v = out["violation"]
    print("log_digest", out["log_digest"], "steps", out["stats"]["steps"])
    if v:
        print(v["signature"], "at", v["at"])
        print(json.dumps(v["detail"], default=str)[:3000])
    if "--trace" in sys.argv:
        print(json.dumps(out["trace"], default=str)[:6000])
