#!/venv/bin/python
"""Re-run the quick check of each seeded change (development tool) and
regenerate /verif/seeded/README.md.

    tools/recheck_seeded.py [--only C16_b] [--longer]
"""
import argparse
import json
import os
import sys

sys.path.insert(0, os.path.dirname(os.path.abspath(__file__)))
import ingest_seeded as I  # noqa: E402

VERIF = I.VERIF


def main():
    ap = argparse.ArgumentParser()
    ap.add_argument("--only")
    ap.add_argument("--longer", action="store_true")
    ap.add_argument("--readme-only", action="store_true")
    a = ap.parse_args()
    root = os.path.join(VERIF, "seeded")
    rows = []
    for d in sorted(os.listdir(root)):
        mp = os.path.join(root, d, "meta.json")
        if not os.path.exists(mp):
            continue
        meta = json.load(open(mp))
        if not a.readme_only and (a.only is None or a.only == d or (a.only.endswith("*") and d.startswith(a.only[:-1]))):
            res = I.run_check_against(os.path.join(root, d, "patch.diff"),
                                      meta["property"], [])
            if res.get("exit") == 0 and a.longer:
                res = I.run_check_against(
                    os.path.join(root, d, "patch.diff"), meta["property"],
                    ["--runs", "12000", "--budget", "400"])
                res["longer"] = True
            meta["recheck"] = res
            meta["detected_now"] = res.get("exit") == 1
            if meta.get("benign"):
                meta["false_alarm_now"] = res.get("exit") != 0
            json.dump(meta, open(mp, "w"), indent=1)
            print(d, res.get("exit"), res.get("signatures"), flush=True)
        rows.append(meta)
    with open(os.path.join(root, "README.md"), "w") as f:
        f.write("# Changes written by independent sub-agents\n\n"
                "Each sub-agent was given only the text of one property and "
                "its own scratch git worktree of /repo (nothing from /verif) "
                "and asked for a change that breaks the property while the "
                "library still imports and the existing tests pass, plus a "
                "demonstration that fails with the change and passes without "
                "it.  Each change was kept only after confirming all of that "
                "in the scratch worktree (`meta.json: ran`).  The checks were "
                "run against a scratch copy of /repo/skfem with the patch "
                "applied (`VERIF_REPO`), never against /repo itself.\n\n"
                "| id | property | what it needs to manifest | first verdict "
                "of the quick check | verdict now | classes that fire |\n"
                "|---|---|---|---|---|---|\n")
        for m in rows:
            if m.get("benign"):
                continue
            first = m.get("check_quick", {})
            now = m.get("recheck", first)
            longer = m.get("check_longer")
            fv = "caught" if first.get("exit") == 1 else (
                "missed (also by 12000 runs)" if longer and
                longer.get("exit") != 1 else "missed by quick, caught by "
                "12000 runs" if longer else "missed")
            nv = "caught" if now.get("exit") == 1 else "missed"
            sigs = sorted({s.split("/")[0] for s in now.get("signatures", [])})
            f.write("| %s | %s | %s | %s | %s | %s |\n" % (
                m["id"], m["property"], m.get("needs", "").replace("|", "/"),
                fv, nv + (" (" + m["note"] + ")" if m.get("note") else ""),
                ", ".join(sigs)))
        ben = [m for m in rows if m.get("benign")]
        if ben:
            f.write("\n## Behaviour-preserving changes (false-alarm probes)\n\n"
                    "Sub-agents asked for a substantial refactoring / other "
                    "valid algorithm under which the property still holds. "
                    "The checks must stay silent on them.\n\n"
                    "| id | property | what changed | quick check | longer "
                    "run | verdict |\n|---|---|---|---|---|---|\n")
            for m in ben:
                now = m.get("recheck", m.get("check_quick", {}))
                lon = m.get("check_longer", {})
                f.write("| %s | %s | %s | exit %s | exit %s | %s |\n" % (
                    m["id"], m["property"],
                    m.get("needs", "").replace("|", "/"), now.get("exit"),
                    lon.get("exit"), m.get("note", "silent")))
    print("README.md written (%d changes)" % len(rows))


if __name__ == "__main__":
    main()
