#!/venv/bin/python
"""Determinism self-test (development tool, not a registered check).

For each property: the same VERIF_SEED and run indices are executed
(a) with 16 workers under PYTHONHASHSEED=0, (b) again the same way,
(c) with 3 workers under another PYTHONHASHSEED in a fresh interpreter.
The per-run event-log digests of the three batches must be identical.

    tools/determinism_selftest.py [--props C16,C15,...] [--runs 400] [--seed 5]
"""
import argparse
import json
import os
import subprocess
import sys
import tempfile

VERIF = os.path.dirname(os.path.dirname(os.path.abspath(__file__)))


def batch(prop, runs, seed, workers, hashseed, out):
    env = dict(os.environ, PYTHONHASHSEED=str(hashseed))
    cmd = [sys.executable, os.path.join(VERIF, "check.py"), prop, "--runs",
           str(runs), "--seed", str(seed), "--workers", str(workers),
           "--budget", "3000", "--no-evidence", "--no-selfcheck",
           "--dump-digests", out]
    p = subprocess.run(cmd, env=env, capture_output=True, text=True)
    if p.returncode not in (0, 1):
        print(p.stdout[-2000:], p.stderr[-2000:])
        raise SystemExit("batch failed for %s" % prop)
    return json.load(open(out))


def main():
    ap = argparse.ArgumentParser()
    ap.add_argument("--props", default="C16,C15,C17,C12,C13,C18")
    ap.add_argument("--runs", type=int, default=400)
    ap.add_argument("--seed", type=int, default=5)
    a = ap.parse_args()
    bad = 0
    for prop in a.props.split(","):
        with tempfile.TemporaryDirectory() as d:
            A = batch(prop, a.runs, a.seed, 16, 0, os.path.join(d, "a.json"))
            B = batch(prop, a.runs, a.seed, 16, 0, os.path.join(d, "b.json"))
            C = batch(prop, a.runs, a.seed, 3, 424242, os.path.join(d, "c.json"))
        ks = sorted(set(A) & set(B) & set(C), key=int)
        mism = [k for k in ks if not (A[k] == B[k] == C[k])]
        print("%s: %d runs compared (16 workers x2, 3 workers + other hash "
              "seed): %d mismatches %s" % (prop, len(ks), len(mism), mism[:8]),
              flush=True)
        bad += len(mism)
    return 1 if bad else 0


if __name__ == "__main__":
    sys.exit(main())
