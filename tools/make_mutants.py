#!/venv/bin/python
"""Generate /verif/mutants/<prop>/<name>.diff from (file, old, new) edits.

Development tool for the sensitivity self-test; not a registered check.
Each mutant still imports and (by construction) is the kind of change the
existing test-suite does not reliably notice.  ``expect`` is "violation" or
"clean" (benign refactorings that must NOT alarm).
"""
import difflib
import json
import os
import sys

VERIF = os.path.dirname(os.path.dirname(os.path.abspath(__file__)))
REPO = os.environ.get("VERIF_REPO", "/repo")

M = []


def mutant(prop, name, file, old, new, expect="violation", note=""):
    M.append(dict(prop=prop, name=name, file=file, old=old, new=new,
                  expect=expect, note=note))


BF = "skfem/assembly/form/bilinear_form.py"

# ------------------------------------------------------------------ C16
mutant("C16", "join-all-but-last", BF,
       "            for t in threads:\n                t.join()\n",
       "            for t in threads[:-1]:\n                t.join()\n",
       note="last worker may still be computing when data is flattened")
mutant("C16", "join-inside-start-loop", BF,
       "            for t in threads:\n                t.start()\n"
       "            for t in threads:\n                t.join()\n",
       "            for t in threads:\n                t.start()\n"
       "                t.join()\n",
       expect="clean", note="serialised but correct")
mutant("C16", "chunker-drops-remainder", BF,
       "                ) for ix in np.array_split(indices, self.nthreads, axis=0)\n",
       "                ) for ix in (np.split(indices[:len(indices) - len(indices) % self.nthreads], self.nthreads, axis=0)\n"
       "                             if len(indices) >= self.nthreads else np.array_split(indices, self.nthreads, axis=0))\n",
       note="pairs beyond the last full chunk are never computed")
mutant("C16", "threaded-kernel-transposed", BF,
       "            i, j = ij\n            data[j, i] = self._kernel(\n",
       "            i, j = ij\n            data[i, j] = self._kernel(\n",
       note="wrong slot for rectangular / non-symmetric local matrices")
mutant("C16", "shared-scratch-buffer", BF,
       "            data[j, i] = self._kernel(\n                ubasis[j],\n                vbasis[i],\n                wdict,\n                dx,\n            )\n",
       "            self._scratch = self._kernel(\n                ubasis[j],\n                vbasis[i],\n                wdict,\n                dx,\n            )\n            data[j, i] = self._scratch\n",
       note="per-form scratch shared by workers: race between compute and store")
mutant("C16", "worker-writes-wdict", BF,
       "        for ij in ix:\n            i, j = ij\n",
       "        for ij in ix:\n            i, j = ij\n            wdict['_pair'] = (int(i), int(j))\n",
       note="shared parameter dictionary modified by workers")
mutant("C16", "join-replaced-by-sleep", BF,
       "            for t in threads:\n                t.join()\n",
       "            import time\n            time.sleep(0.05)\n",
       note="waits a fixed time instead of joining")
mutant("C16", "join-with-timeout", BF,
       "                t.join()\n",
       "                t.join(timeout=0.5)\n",
       note="a slow worker is abandoned after the timeout")
mutant("C16", "threading-dot-thread", BF,
       "from threading import Thread\n",
       "import threading\n\n\ndef Thread(*a, **k):\n    return threading.Thread(*a, **k)\n",
       expect="clean", note="same behaviour through another import style")
mutant("C16", "chunks-overlap", BF,
       "                ) for ix in np.array_split(indices, self.nthreads, axis=0)\n",
       "                ) for ix in [np.vstack((c, indices[:1])) if n == 1 else c for n, c in enumerate(np.array_split(indices, self.nthreads, axis=0))]\n",
       note="pair (0,0) is also computed by the second worker: same value, so "
            "the matrix is right, but not exactly-once/disjoint")
mutant("C16", "is-alive-wait-skips-first", BF,
       "            for t in threads:\n                t.join()\n",
       "            while any(t.is_alive() for t in threads[1:]):\n                pass\n",
       note="busy-wait that forgets the first worker")
mutant("C16", "busy-wait-on-is-alive", BF,
       "            for t in threads:\n                t.join()\n",
       "            while any(t.is_alive() for t in threads):\n                pass\n",
       expect="clean", note="spins instead of blocking, but waits for everybody")
mutant("C16", "start-after-join-of-previous-batch", BF,
       "            for t in threads:\n                t.start()\n"
       "            for t in threads:\n                t.join()\n",
       "            for t in threads:\n                t.start()\n"
       "            for t in threads[::2]:\n                t.join()\n"
       "            for t in threads[1::2]:\n                t.join(0)\n",
       note="odd workers are polled, not awaited")


# ------------------------------------------------------------------ C15
ISO = "skfem/mapping/mapping_isoparametric.py"
mutant("C15", "jcache-drops-tind", ISO,
       "        h = hash_args(i, j, X, tind)\n",
       "        h = hash_args(i, j, X)\n",
       note="Jacobian cache ignores the cell subset")
mutant("C15", "jcache-drops-X", ISO,
       "        h = hash_args(i, j, X, tind)\n",
       "        h = hash_args(i, j, X.shape, tind)\n",
       note="Jacobian cache keyed by the shape of the point set only")
mutant("C15", "global-coordinates-class-cache", "skfem/assembly/basis/cell_basis.py",
       "        if self._global_coordinates is None:\n            self._global_coordinates = DiscreteField(\n                self.mapping.F(self.X, tind=self.tind)\n            )\n        return self._global_coordinates\n",
       "        if type(self)._global_coordinates is None:\n            type(self)._global_coordinates = DiscreteField(\n                self.mapping.F(self.X, tind=self.tind)\n            )\n        return type(self)._global_coordinates\n",
       note="per-basis cache hoisted to the class: first basis wins for all")
mutant("C15", "enforce-drops-copy", "skfem/utils.py",
       "    Aout = A if overwrite else A.copy()\n\n    # set rows on lhs to zero\n",
       "    Aout = A\n\n    # set rows on lhs to zero\n",
       note="enforce modifies the caller's matrix")
mutant("C15", "enforce-rhs-drops-copy", "skfem/utils.py",
       "            bout = b if overwrite else b.copy()\n            bout[D] = x[D]\n",
       "            bout = b\n            bout[D] = x[D]\n",
       note="enforce modifies the caller's right-hand side")
mutant("C15", "with-boundaries-in-place", "skfem/mesh/mesh.py",
       "        return replace(\n            self,\n            _boundaries={\n                **({} if self._boundaries is None else self._boundaries),\n",
       "        if self._boundaries is not None:\n            self._boundaries.update({name: self.facets_satisfying(test_or_set, boundaries_only)\n                                     if callable(test_or_set) else test_or_set\n                                     for name, test_or_set in boundaries.items()})\n        return replace(\n            self,\n            _boundaries={\n                **({} if self._boundaries is None else self._boundaries),\n",
       note="tagging also updates the operand's own dictionary (container, "
            "not array: the statement's letter is about arrays; detected only "
            "if a later result changes)", expect="violation")
mutant("C15", "tet-adaptive-no-reseed", "skfem/mesh/mesh_tet_1.py",
       "        np.random.seed(1337)\n", "",
       note="bisection tie-breaking reads the caller's global RNG stream")
mutant("C15", "scaled-in-place", "skfem/mesh/mesh.py",
       "            doflocs=np.array([self.doflocs[itr] * factors[itr]\n                              for itr in range(len(factors))]),\n",
       "            doflocs=np.multiply(self.doflocs, np.array(factors, dtype=float)[:len(self.doflocs), None], out=self.doflocs),\n",
       note="scaling writes through to the operand's coordinate array")
mutant("C15", "f2t-cache-shared-with-restrict", "skfem/mesh/mesh.py",
       "        p, t, ix = self._reix(self.t[:, elements])\n\n        new_subdomains = None\n",
       "        p, t, ix = self._reix(self.t[:, elements])\n        self.t2f.sort(axis=0)\n\n        new_subdomains = None\n",
       note="restrict sorts the operand's cached t2f table in place")
mutant("C15", "module-level-id-cache", "skfem/mapping/mapping_affine.py",
       "class MappingAffine(Mapping):\n",
       "_DET_CACHE = {}\n\n\nclass MappingAffine(Mapping):\n",
       expect="clean", note="adds an unused module-level dict (benign)")
mutant("C15", "probes-caches-finder-per-class", "skfem/assembly/basis/cell_basis.py",
       "        cells = self.mesh.element_finder(mapping=self.mapping)(*x)\n",
       "        if not hasattr(type(self), '_finder'):\n            type(self)._finder = self.mesh.element_finder(mapping=self.mapping)\n        cells = type(self)._finder(*x)\n",
       note="element finder of the first mesh reused for every basis of the class")


# ------------------------------------------------------------------ C12/C13/C18
TRI = "skfem/mesh/mesh_tri_1.py"
QUAD = "skfem/mesh/mesh_quad_1.py"
TET = "skfem/mesh/mesh_tet_1.py"
HEX = "skfem/mesh/mesh_hex_1.py"
LINE = "skfem/mesh/mesh_line_1.py"
MESH = "skfem/mesh/mesh.py"
mutant("C12", "tri-red-child-template", TRI,
       "                np.vstack((t[1], t2f[0] + sz, t2f[1] + sz)),\n",
       "                np.vstack((t[1], t2f[0] + sz, t2f[2] + sz)),\n",
       note="one child of the red refinement uses the wrong edge midpoint")
mutant("C12", "tet-subdomain-child-offset", TET,
       "                new_t[5, c1] = np.arange(n1, dtype=np.int32) + 5 * nt\n",
       "                new_t[5, c1] = np.arange(n1, dtype=np.int32) + 4 * nt\n",
       note="wrong child block for one diagonal class in the subdomain map")
mutant("C12", "tri-facet-map-slot", TRI,
       "            new_facets[1, t2f[0]] = m.t2f[0, ix1]\n",
       "            new_facets[1, t2f[0]] = m.t2f[2, ix1]\n",
       note="old->new facet map takes the wrong local slot of a child")
mutant("C12", "quad-facet-map-child", QUAD,
       "            new_facets[1, t2f[3]] = m.t2f[3, ix0]\n",
       "            new_facets[1, t2f[3]] = m.t2f[3, ix1]\n",
       note="old->new facet map looks into the wrong child")
mutant("C12", "hex-child-vertex", HEX,
       "            np.vstack((t2e[2], t2f[2], t2f[1], t[3],\n                       mid, t2e[7], t2e[8], t2f[5])),\n",
       "            np.vstack((t2e[2], t2f[2], t2f[1], t[3],\n                       mid, t2e[8], t2e[7], t2f[5])),\n",
       note="two vertices swapped in one child of the hexahedron split")
mutant("C12", "generic-subdomain-map-off", MESH,
       "                        new_t[itr + 1] = new_t[itr] + m.t.shape[1]\n",
       "                        new_t[itr + 1] = new_t[itr] + m.t.shape[1] - (itr == 2)\n",
       note="generic child map (tri/quad/hex) off by one for the last block")
mutant("C13", "tri-closure-single-pass", TRI,
       "        while np.count_nonzero(facets) - prev_nnz > 0:\n",
       "        for _ in range(1):\n",
       note="bisection closure not iterated to a fixed point: hanging nodes "
            "for marked sets whose closure needs two passes")
mutant("C13", "line-adaptive-right-half", LINE,
       "                          np.vstack((mid, t[1, marked]))))\n",
       "                          np.vstack((mid, t[0, marked]))))\n",
       note="right half of a bisected segment ends at the wrong vertex")
mutant("C13", "tet-parent-of-grandchild", TET,
       "            parent[nt:(nt + nm)] = parent[marked]\n",
       "            parent[nt:(nt + nm)] = marked\n",
       note="second-level bisections inherit the slot, not the original "
            "element: wrong only when the closure bisects a child again")
mutant("C13", "tri-adaptive-subdomain-blue", TRI,
       "            new_t[:3, blue2] = np.arange(offset,\n                                         offset + 3 * nblue2,\n",
       "            new_t[:3, blue2] = np.arange(offset + 1,\n                                         offset + 3 * nblue2 + 1,\n",
       note="subdomain map of blue-2 refined triangles shifted by one")
mutant("C18", "restrict-facet-rank-reversed", MESH,
       "            newf[facets] = np.arange(len(facets), dtype=np.int32)\n",
       "            newf[facets] = np.arange(len(facets), dtype=np.int32)[::-1]\n",
       note="old->new facet index map of restrict reversed")
mutant("C18", "remove-unused-no-remap", MESH,
       "        p, t, _ = self._reix(self.t)\n        return replace(\n            self,\n            doflocs=p,\n            t=t,\n        )\n",
       "        p, t, _ = self._reix(self.t)\n        return replace(\n            self,\n            doflocs=p,\n            t=self.t,\n        )\n",
       note="points compacted but connectivity not renumbered")
mutant("C18", "to-meshtri-subdomain-offset", QUAD,
       "                subdomains = {k: np.concatenate((v, v + nt))\n",
       "                subdomains = {k: np.concatenate((v, v + nt - 1))\n",
       note="second triangle of each tagged quadrilateral attributed to the neighbour")
mutant("C18", "scaled-first-factor-only", MESH,
       "            doflocs=np.array([self.doflocs[itr] * factors[itr]\n",
       "            doflocs=np.array([self.doflocs[itr] * factors[0]\n",
       note="anisotropic scaling uses the first factor for every axis")
mutant("C18", "mirrored-ignores-point", MESH,
       "        p = p - 2. * np.dot(n, p - p0[:, None]) * n[:, None]\n",
       "        p = p - 2. * np.dot(n, p) * n[:, None]\n",
       note="mirror plane always through the origin")
mutant("C18", "restrict-subdomain-order", MESH,
       "            newt[elements] = np.arange(len(elements), dtype=np.int32)\n",
       "            newt[np.sort(elements)] = np.arange(len(elements), dtype=np.int32)[::-1]\n",
       note="old->new element map of restrict reversed")
mutant("C18", "restrict-vertex-map-unsorted", MESH,
       "            np.ascontiguousarray(t[ix]),\n            ixuniq\n",
       "            np.ascontiguousarray(t[ix]),\n            ixuniq[::-1]\n",
       note="returned vertex index map reversed")


# ------------------------------------------------------------------ C17
MIO = "skfem/io/meshio.py"
mutant("C17", "hex-inverse-map-not-inverse", MIO,
       "        t = t[INV_HEX_MAPPING[:8]]\n",
       "        t = t[HEX_MAPPING[:8]]\n",
       note="import applies the export permutation again instead of its inverse")
mutant("C17", "decode-bitmask-shifted", MESH,
       "                    (1 << np.arange(self.refdom.nfacets))[:, None]\n                    & data[0].astype(np.int32)\n",
       "                    (1 << np.arange(1, self.refdom.nfacets + 1))[:, None]\n                    & data[0].astype(np.int32)\n",
       note="facet slot bits read one position off")
mutant("C17", "owner-cell-ignores-orientation", MESH,
       "            columns = self.f2t[(b.ori, b)]\n",
       "            columns = self.f2t[(0 * b.ori, b)]\n",
       note="oriented facets always encoded in their first cell")
mutant("C17", "write-errors-swallowed", MIO,
       "    meshio.write(path,\n                 to_meshio(mesh,\n                           point_data,\n                           cell_data,\n                           encode_cell_data,\n                           encode_point_data),\n                 **kwargs)\n",
       "    try:\n        meshio.write(path,\n                     to_meshio(mesh,\n                               point_data,\n                               cell_data,\n                               encode_cell_data,\n                               encode_point_data),\n                     **kwargs)\n    except OSError:\n        logger.warning('Failure to write the mesh.')\n",
       note="a failed write is logged and save returns normally: only a "
            "fault-injecting run can see it")
mutant("C17", "to-dict-drops-last-subdomain", MESH,
       "            subdomains = {k: v.tolist() for k, v in self.subdomains.items()}\n",
       "            subdomains = {k: v.tolist() for k, v in list(self.subdomains.items())[:-1]}\n" if False else
       "            subdomains = {k: v.tolist()[:-1] if len(v) > 3 else v.tolist() for k, v in self.subdomains.items()}\n",
       note="last cell of larger subdomains not serialised")
mutant("C17", "npz-prefixes-swapped", MESH,
       "                for key in data.files\n                if key[:2] == 's_'\n",
       "                for key in data.files\n                if key[:2] in ('s_', 'o_')\n",
       note="orientation arrays also read as subdomains")
mutant("C17", "points-read-as-float32", MIO,
       "    p = np.ascontiguousarray(mesh_type.strip_extra_coordinates(m.points).T)\n",
       "    p = np.ascontiguousarray(mesh_type.strip_extra_coordinates(m.points).T.astype(np.float32))\n",
       note="coordinates lose precision on import")
mutant("C17", "msh-default-format-22", MIO,
       "        kwargs.update({'file_format': 'gmsh'})\n",
       "        kwargs.update({'file_format': 'gmsh22'})\n",
       expect="clean", note="another (equally valid) default gmsh version")
mutant("C17", "json-file-not-closed-on-error", "skfem/io/json.py",
       "    with open(filename, 'w') as handle:\n        json.dump(mesh.to_dict(), handle)\n",
       "    handle = open(filename, 'w')\n    try:\n        json.dump(mesh.to_dict(), handle)\n        handle.close()\n    except OSError:\n        pass\n",
       note="write errors of the JSON form swallowed: only fault runs see it")


def revert_mutants(out_root, index):
    """Each repaired defect, reverted, is a mutant the check must catch."""
    import subprocess
    kf = os.path.join(VERIF, "known_findings.jsonl")
    if not os.path.exists(kf):
        return
    for line in open(kf):
        line = line.strip()
        if not line:
            continue
        d = json.loads(line)
        if d.get("status") != "fixed":
            continue
        c = d["commit"]
        try:
            diff = subprocess.check_output(
                ["git", "-C", "/repo", "diff", c, c + "^", "--", "skfem"],
                text=True)
        except subprocess.CalledProcessError:
            continue
        name = "revert-%s-%s" % (d.get("tag", "fix"), c[:8])
        p = os.path.join(out_root, d["property"])
        os.makedirs(p, exist_ok=True)
        with open(os.path.join(p, name + ".diff"), "w") as f:
            f.write(diff)
        # F5a: after F4/F5b no class drops subdomains any more, so the
        # warning it repairs is unreachable and its revert is unobservable
        index.append({"prop": d["property"], "name": name, "file": "(revert)",
                      # F23 needs an exact tie after rounding on a mesh
                      # of size 1000 (2 of 60000 thorough runs): a quick
                      # run may or may not meet it
                      "expect": "clean" if d.get("tag") == "F5a"
                      else "rare" if d.get("tag") in ("F23",)
                      else "violation", "note": d["what"]})


def main():
    out_root = os.path.join(VERIF, "mutants")
    index = []
    revert_mutants(out_root, index)
    for m in M:
        path = os.path.join(REPO, m["file"])
        src = open(path).read()
        if src.count(m["old"]) != 1:
            print("SKIP %s/%s: pattern occurs %d times" % (
                m["prop"], m["name"], src.count(m["old"])))
            continue
        dst = src.replace(m["old"], m["new"])
        diff = "".join(difflib.unified_diff(
            src.splitlines(True), dst.splitlines(True),
            "a/" + m["file"], "b/" + m["file"]))
        d = os.path.join(out_root, m["prop"])
        os.makedirs(d, exist_ok=True)
        with open(os.path.join(d, m["name"] + ".diff"), "w") as f:
            f.write(diff)
        index.append({k: m[k] for k in ("prop", "name", "file", "expect",
                                        "note")})
    with open(os.path.join(out_root, "index.json"), "w") as f:
        json.dump(index, f, indent=1)
    print("wrote %d mutants" % len(index))


if __name__ == "__main__":
    main()
