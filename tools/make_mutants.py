#!/venv/bin/python
"""Generate /verif/mutants/<prop>/<name>.diff from (file, old, new) edits.

Development tool for the sensitivity self-test; not a registered check.
Each mutant still imports and (by construction) is the kind of change the
existing test-suite does not reliably notice.  ``expect`` is "violation" or
"clean" (benign refactorings that must NOT alarm).
"""
import difflib
import json
import os
import sys

VERIF = os.path.dirname(os.path.dirname(os.path.abspath(__file__)))
REPO = os.environ.get("VERIF_REPO", "/repo")

M = []


def mutant(prop, name, file, old, new, expect="violation", note=""):
    M.append(dict(prop=prop, name=name, file=file, old=old, new=new,
                  expect=expect, note=note))


BF = "skfem/assembly/form/bilinear_form.py"

# ------------------------------------------------------------------ C16
mutant("C16", "join-all-but-last", BF,
       "            for t in threads:\n                t.join()\n",
       "            for t in threads[:-1]:\n                t.join()\n",
       note="last worker may still be computing when data is flattened")
mutant("C16", "join-inside-start-loop", BF,
       "            for t in threads:\n                t.start()\n"
       "            for t in threads:\n                t.join()\n",
       "            for t in threads:\n                t.start()\n"
       "                t.join()\n",
       expect="clean", note="serialised but correct")
mutant("C16", "chunker-drops-remainder", BF,
       "                ) for ix in np.array_split(indices, self.nthreads, axis=0)\n",
       "                ) for ix in (np.split(indices[:len(indices) - len(indices) % self.nthreads], self.nthreads, axis=0)\n"
       "                             if len(indices) >= self.nthreads else np.array_split(indices, self.nthreads, axis=0))\n",
       note="pairs beyond the last full chunk are never computed")
mutant("C16", "threaded-kernel-transposed", BF,
       "            i, j = ij\n            data[j, i] = self._kernel(\n",
       "            i, j = ij\n            data[i, j] = self._kernel(\n",
       note="wrong slot for rectangular / non-symmetric local matrices")
mutant("C16", "shared-scratch-buffer", BF,
       "            data[j, i] = self._kernel(\n                ubasis[j],\n                vbasis[i],\n                wdict,\n                dx,\n            )\n",
       "            self._scratch = self._kernel(\n                ubasis[j],\n                vbasis[i],\n                wdict,\n                dx,\n            )\n            data[j, i] = self._scratch\n",
       note="per-form scratch shared by workers: race between compute and store")
mutant("C16", "worker-writes-wdict", BF,
       "        for ij in ix:\n            i, j = ij\n",
       "        for ij in ix:\n            i, j = ij\n            wdict['_pair'] = (int(i), int(j))\n",
       note="shared parameter dictionary modified by workers")
mutant("C16", "join-replaced-by-sleep", BF,
       "            for t in threads:\n                t.join()\n",
       "            import time\n            time.sleep(0.05)\n",
       note="waits a fixed time instead of joining")
mutant("C16", "join-with-timeout", BF,
       "                t.join()\n",
       "                t.join(timeout=0.5)\n",
       note="a slow worker is abandoned after the timeout")
mutant("C16", "threading-dot-thread", BF,
       "from threading import Thread\n",
       "import threading\n\n\ndef Thread(*a, **k):\n    return threading.Thread(*a, **k)\n",
       expect="clean", note="same behaviour through another import style")
mutant("C16", "chunks-overlap", BF,
       "                ) for ix in np.array_split(indices, self.nthreads, axis=0)\n",
       "                ) for ix in [np.vstack((c, indices[:1])) if n == 1 else c for n, c in enumerate(np.array_split(indices, self.nthreads, axis=0))]\n",
       note="pair (0,0) is also computed by the second worker: same value, so "
            "the matrix is right, but not exactly-once/disjoint")
mutant("C16", "is-alive-wait-skips-first", BF,
       "            for t in threads:\n                t.join()\n",
       "            while any(t.is_alive() for t in threads[1:]):\n                pass\n",
       note="busy-wait that forgets the first worker")
mutant("C16", "busy-wait-on-is-alive", BF,
       "            for t in threads:\n                t.join()\n",
       "            while any(t.is_alive() for t in threads):\n                pass\n",
       expect="clean", note="spins instead of blocking, but waits for everybody")
mutant("C16", "start-after-join-of-previous-batch", BF,
       "            for t in threads:\n                t.start()\n"
       "            for t in threads:\n                t.join()\n",
       "            for t in threads:\n                t.start()\n"
       "            for t in threads[::2]:\n                t.join()\n"
       "            for t in threads[1::2]:\n                t.join(0)\n",
       note="odd workers are polled, not awaited")


def main():
    out_root = os.path.join(VERIF, "mutants")
    index = []
    for m in M:
        path = os.path.join(REPO, m["file"])
        src = open(path).read()
        if src.count(m["old"]) != 1:
            print("SKIP %s/%s: pattern occurs %d times" % (
                m["prop"], m["name"], src.count(m["old"])))
            continue
        dst = src.replace(m["old"], m["new"])
        diff = "".join(difflib.unified_diff(
            src.splitlines(True), dst.splitlines(True),
            "a/" + m["file"], "b/" + m["file"]))
        d = os.path.join(out_root, m["prop"])
        os.makedirs(d, exist_ok=True)
        with open(os.path.join(d, m["name"] + ".diff"), "w") as f:
            f.write(diff)
        index.append({k: m[k] for k in ("prop", "name", "file", "expect",
                                        "note")})
    with open(os.path.join(out_root, "index.json"), "w") as f:
        json.dump(index, f, indent=1)
    print("wrote %d mutants" % len(index))


if __name__ == "__main__":
    main()
