#!/usr/bin/env python3
"""Write /verif/MANIFEST.json (kept in one place so it stays valid)."""
import json
import os

VERIF = os.path.dirname(os.path.dirname(os.path.abspath(__file__)))
PY = "/venv/bin/python"

CLAIMED = {
    "C16": dict(
        engine="threadsim",
        technique="deterministic simulation: seeded schedules of the real "
                  "worker threads (baton-passing scheduler, sys.settrace "
                  "pre-emption), checked against serial assembly as the "
                  "reference model; schedule shrinking + exact replay",
        text="Seeded search over interleavings of the real threaded-assembly "
             "code: every context switch is decided by the simulator, each "
             "run is compared bit-for-bit with serial assembly and checked "
             "for exactly-once / disjoint ownership / untouched inputs / no "
             "late work. Sampling, not enumeration: a clean batch is "
             "evidence, not proof.",
        note="Trusts: CPython line-level tracing as the pre-emption "
             "granularity (races inside a single NumPy call are out of "
             "reach); Thread.start/join/is_alive and time.sleep are the only "
             "virtualised blocking primitives; serial assembly (nthreads=0) "
             "is the reference.",
        design="DESIGN.md section 4, C16"),
    "C15": dict(
        engine="histsim",
        technique="deterministic simulation: seeded operation histories over "
                  "a long-lived object pool with ambient-state perturbation "
                  "(global RNG, logging level, gc, hash seed) and API-level "
                  "failures, each op compared with the same op on freshly "
                  "rebuilt objects in-process and in a pristine forked "
                  "interpreter; operand byte digests; ddmin + exact replay",
        text="Seeded search over operation histories on shared, cache-bearing "
             "objects; oracle is the same code run cold, compared exactly. "
             "Sampling, not enumeration.",
        note="Trusts: the fresh rebuild as reference (a bug present in both "
             "warm and cold paths is invisible here by design); ARPACK "
             "results compared by tolerance only.",
        design="DESIGN.md section 4, C15"),
    "C17": dict(
        engine="iosim",
        technique="deterministic simulation: seeded save/overwrite/load "
                  "histories on a scratch directory with disk-full faults "
                  "injected at a seeded byte offset (RLIMIT_FSIZE seam) and "
                  "open-fails faults (RLIMIT_NOFILE seam), checked against an "
                  "in-memory model path -> last acknowledged mesh; ddmin + "
                  "exact replay",
        text="Seeded search over I/O histories and fault offsets with real "
             "meshio and real files; fault-free and fault-injecting "
             "configurations are separate. Sampling, not enumeration.",
        note="Trusts: the operating system's RLIMIT_FSIZE as the disk-full "
             "seam; own deep snapshot of the mesh as the model; meshio is "
             "real code under test together with skfem.io.",
        design="DESIGN.md section 4, C17"),
    "C12": dict(
        engine="lineage",
        technique="deterministic simulation, history facet only (no scheduler "
                  "or fault injector: the code has no seam for either): "
                  "seeded mesh-operation histories containing uniform "
                  "refinement, checked step by step against an independent "
                  "geometric reference model (plus scale probes with light "
                  "vectorised checks on meshes above 46340 vertices); ddmin + "
                  "exact replay",
        text="Seeded search over operation histories; oracle is own geometry "
             "(facet tables, parent maps, measures, probe points), not "
             "skfem's connectivity. Sampling, not enumeration.",
        note="Trusts: simfem.geom (own point-in-cell tests, measures, "
             "lattice prediction for quad/hex children) and floating-point "
             "tolerances stated in the evidence; ambiguous points are "
             "skipped and counted, never guessed.",
        design="DESIGN.md section 4, C12/C13/C18"),
    "C13": dict(
        engine="lineage",
        technique="deterministic simulation, history facet only (no scheduler "
                  "or fault injector): seeded histories of adaptive and "
                  "uniform refinements with seeded marked sets, checked step "
                  "by step against an independent geometric reference model; "
                  "ddmin + exact replay",
        text="Seeded search over refinement histories and marked sets; "
             "oracle is own geometry. Sampling, not enumeration.",
        note="Same trusted base as C12.",
        design="DESIGN.md section 4, C12/C13/C18"),
    "C18": dict(
        engine="lineage",
        technique="deterministic simulation, history facet only (no scheduler "
                  "or fault injector): seeded histories of mesh surgery "
                  "operations (restrict/remove/join/split/extrude/transform/"
                  "node clean-up) with tags, checked against an independent "
                  "geometric reference model and index-map identities; "
                  "ddmin + exact replay",
        text="Seeded search over compositions of surgery operations; oracle "
             "is own geometry plus the returned index maps. Sampling, not "
             "enumeration.",
        note="Same trusted base as C12.",
        design="DESIGN.md section 4, C12/C13/C18"),
}

NA = {
    "C01": "pure function of (mesh, element, integrand, vectors): no schedule, clock, I/O, fault or history in the statement; its threaded configuration is decided through C16 (threaded == serial bit for bit)",
    "C02": "pure input-quantified algebraic identity (quadrature exactness); nothing for a scheduler or fault injector to vary",
    "C03": "pure function of mesh numbering and element; vertex/cell permutations are inputs, not schedules",
    "C04": "pure combinatorial function of (mesh, element)",
    "C05": "pure linear algebra on (A, b, x, index sets); its 'arguments not modified' clause is exercised inside C15's histories",
    "C06": "pure end-to-end numerical identity with a deterministic direct solver; no seam",
    "C07": "pure function of the selection; the only ambient nondeterminism it touches (set iteration order under hash randomisation) is covered by C15's hash-seed runs",
    "C08": "finite table, enumerable with exact arithmetic: enumeration, not seeded simulation",
    "C09": "pure pointwise polynomial identities per element",
    "C10": "pure function of (mesh, points, subset); the Jacobian cache's history sensitivity is C15's subject",
    "C11": "pure function of the cell list; the lazily built tables' access-order dependence is C15's subject",
    "C14": "pure function of (mesh, points); the KD-tree cache is covered by C15; no schedule, clock or I/O",
    "C19": "pure algebraic identities between composite and component structures",
    "C20": "pure function (JAX on CPU is deterministic here); no schedule, clock, I/O or history in the statement",
}


def main(claimed_now):
    checks = []
    for pid in claimed_now:
        c = CLAIMED[pid]
        checks.append({
            "property_id": pid,
            "quick_cmd": "%s /verif/check.py %s --tier quick" % (PY, pid),
            "thorough_cmd": "%s /verif/check.py %s --tier thorough" % (PY, pid),
            "evidence_file": "/verif/evidence/%s.json" % pid,
            "replay_cmd_template": "%s /verif/check.py %s --replay {path}" % (PY, pid),
            "engine": c["engine"],
            "level_claimed": {"category": "exploration", "text": c["text"],
                              "design_ref": c["design"]},
            "level_note": c["note"],
            "technique": c["technique"],
        })
    na = [{"property_id": k, "reason": v} for k, v in sorted(NA.items())]
    for pid in sorted(CLAIMED):
        if pid not in claimed_now:
            na.append({"property_id": pid,
                       "reason": "simulation target (see DESIGN.md) but its "
                                 "check is not registered yet"})
    engines = {}
    for pid in claimed_now:
        e = CLAIMED[pid]["engine"]
        engines.setdefault(e, []).append(pid)
    man = {
        "version": 1,
        "setup_cmd": "%s -c \"import numpy, scipy, meshio, skfem; print('ok', skfem.__file__)\"" % PY,
        "hooks": {
            "guard": "SKFEM_VERIF",
            "enable": "no hook is needed: every seam used (module-level "
                      "Thread name, sys.settrace, time.sleep, np.random "
                      "state, logging, RLIMIT_FSIZE) already exists; skfem is "
                      "an editable install, checks import /repo as it stands",
            "baseline_off_cmd": "cd /repo && /venv/bin/python -m pytest -ra -q "
                                "-p no:cacheprovider --timeout=900 "
                                "--continue-on-collection-errors",
            "source_commits": [],
            "add_only": True,
        },
        "engines": [{"name": e, "path": "/verif/simfem/%s" % e,
                     "serves_properties": sorted(p),
                     "kind_free_text": "deterministic simulation engine"}
                    for e, p in sorted(engines.items())],
        "checks": checks,
        "not_applicable": na,
        "notes": "Single entry point /verif/check.py; exit 0 held, exit 1 "
                 "VIOLATION (with replay file, reproduced in a fresh process "
                 "before it is printed), exit 2 HARNESS-ERROR. Known findings "
                 "in /verif/known_findings.jsonl.",
    }
    with open(os.path.join(VERIF, "MANIFEST.json"), "w") as f:
        json.dump(man, f, indent=1)
        f.write("\n")
    print("MANIFEST.json:", [c["property_id"] for c in checks])


if __name__ == "__main__":
    import sys
    main(sys.argv[1:] or sorted(CLAIMED))
