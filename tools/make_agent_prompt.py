#!/usr/bin/env python3
"""Write the brief for one independent sub-agent and create its scratch
worktree (development tool).

    tools/make_agent_prompt.py <property> <tag> "<where to look>" "<ideas already taken>"

The brief contains ONLY the property text from properties.jsonl, the worktree
path and generic instructions - nothing from /verif.  Output:
/tmp/agent_prompts/<property>_<tag>.txt and the worktree /tmp/wt_<property>_<tag>.
"""
import json
import os
import subprocess
import sys

VERIF = os.path.dirname(os.path.dirname(os.path.abspath(__file__)))


def main():
    pid, tag, focus, avoid = sys.argv[1:5]
    props = {json.loads(l)["id"]: json.loads(l)
             for l in open(os.path.join(VERIF, "properties.jsonl"))}
    p = props[pid]
    wt = "/tmp/wt_%s_%s" % (pid, tag)
    if not os.path.exists(wt):
        subprocess.check_call(["git", "-C", "/repo", "worktree", "add",
                               "--detach", wt, "HEAD"],
                              stdout=subprocess.DEVNULL,
                              stderr=subprocess.DEVNULL)
    prompt = f"""You are helping to evaluate a verification tool for the Python library scikit-fem (kinnala/scikit-fem). Your job is to act as a careful adversary: make ONE small, realistic change to the library that BREAKS the semantic property below while the library still imports and the existing test suite still passes.

Your private scratch git worktree of the repository is at: {wt}
Work ONLY inside that directory (edit files there, run things there). Do not touch /repo, and do not look at or use anything under /verif. The Python interpreter to use is /venv/bin/python; to make it import YOUR worktree instead of the installed copy, run with the environment variable PYTHONPATH={wt} (check with: PYTHONPATH={wt} /venv/bin/python -c "import skfem; print(skfem.__file__)" - it must print a path under {wt}).

THE PROPERTY (id {pid}): {p['title']}

Statement: {p['statement']}

It is quantified over: {p['quantifier']['text']}

Relevant code: {', '.join(p['anchors']['files'])}

WHERE TO LOOK THIS TIME: {focus}

IDEAS ALREADY TAKEN by other contributors - do NOT repeat any of these: {avoid}.

WHAT TO PRODUCE
1. A change to the library source (under {wt}/skfem/) that makes the property false for SOME inputs/histories/schedules, but not for ordinary use. It must need something specific to manifest: a particular input class, subset, dtype, size relation, sequence of calls on shared objects, fault, or schedule. Do NOT make a change that ordinary use or the existing tests would expose at once, and do not make a silly change (no random numbers, no 'if magic_value' special-casing, no deleting functionality). It should look like a plausible refactoring, optimisation or bug that a maintainer could commit by mistake. Keep it small (a few lines, at most two places). The broken behaviour must be reachable through the PUBLIC API of the library with legal inputs of moderate size (prefer failures that already show on meshes with fewer than a few thousand cells), and it must be a violation of THIS property as stated (not merely of some other expectation).
2. Confirm that the existing test suite still passes with your change: run, from inside {wt}:  PYTHONPATH={wt} /venv/bin/python -m pytest -q -p no:cacheprovider -x -n 4 --timeout=900 tests --deselect tests/test_mamba.py   (takes about 1-3 minutes; the two tests in tests/test_mamba.py fail for unrelated reasons - a missing module - and are deselected). All other tests must pass. If a test fails, your change is too visible: pick a subtler one.
3. Write a demonstration program {wt}/demo.py: a small self-contained script (using only numpy/scipy/skfem/meshio and the standard library) that exits with status 0 when the property holds and exits with a non-zero status (printing what went wrong) when it is violated. It must FAIL (non-zero) with your change and PASS (zero) without it. Verify both: run it with your change; then take the change out with `git diff -- skfem > {wt}/../$(basename {wt}).diff && git apply -R {wt}/../$(basename {wt}).diff`, run it again (must pass), then put the change back with `git apply {wt}/../$(basename {wt}).diff`. Do NOT use `git stash` (the stash is shared with other people's worktrees of the same repository). Run it as:  PYTHONPATH={wt} /venv/bin/python {wt}/demo.py
4. Write {wt}/MUTATION.md: which file/lines you changed, why it breaks the property, and precisely what it needs in order to manifest (which inputs, which sequence of calls, which interleaving or fault), and what you ran to confirm (test suite result line, demo with/without).

Leave your change as UNCOMMITTED modifications in the worktree (do not commit), with demo.py and MUTATION.md as untracked files. When you are done, reply with a short summary: the changed file(s), what it needs to manifest, and the two demo exit codes.
"""
    os.makedirs("/tmp/agent_prompts", exist_ok=True)
    out = "/tmp/agent_prompts/%s_%s.txt" % (pid, tag)
    open(out, "w").write(prompt)
    print(out)


if __name__ == "__main__":
    main()
