#!/venv/bin/python
"""Single entry point of the verification machinery.

    /venv/bin/python /verif/check.py <property> --tier quick|thorough
    /venv/bin/python /verif/check.py <property> --replay <file>

Exit 0: held on everything explored.  Exit 1: violation (a line
``VIOLATION property=<id> replay=<path>`` is printed).  Exit 2: harness error
(never a pass, never a VIOLATION line).
"""
import os
import sys

# BLAS must not add a schedule of its own; must be set before NumPy loads.
for _v in ("OMP_NUM_THREADS", "OPENBLAS_NUM_THREADS", "MKL_NUM_THREADS",
           "NUMEXPR_NUM_THREADS", "VECLIB_MAXIMUM_THREADS"):
    os.environ[_v] = "1"
os.environ.setdefault("JAX_PLATFORMS", "cpu")

VERIF = os.path.dirname(os.path.abspath(__file__))
REPO = os.path.realpath(os.environ.get("VERIF_REPO", "/repo"))
os.environ["VERIF_REPO"] = REPO

# Hash randomisation is an ambient input that the simulator owns: pin it (the
# determinism self-check and histsim's reference interpreter use other values).
if "PYTHONHASHSEED" not in os.environ:
    os.environ["PYTHONHASHSEED"] = "0"
    os.execv(sys.executable, [sys.executable] + sys.argv)

sys.path.insert(0, VERIF)
sys.path.insert(0, REPO)
sys.dont_write_bytecode = True

import argparse  # noqa: E402


def engine_for(prop):
    if prop == "C16":
        from simfem.threadsim import engine
        return engine
    if prop == "C15":
        from simfem.histsim import engine
        return engine
    if prop == "C17":
        from simfem.iosim import engine
        return engine
    if prop in ("C12", "C13", "C18"):
        from simfem.lineage import engine
        return engine
    raise SystemExit("HARNESS-ERROR unknown or unclaimed property %s" % prop)


def main():
    ap = argparse.ArgumentParser()
    ap.add_argument("prop")
    ap.add_argument("--tier", default=os.environ.get("VERIF_TIER", "quick"),
                    choices=["quick", "thorough"])
    ap.add_argument("--seed", type=int,
                    default=int(os.environ.get("VERIF_SEED", "0") or 0))
    ap.add_argument("--runs", type=int)
    ap.add_argument("--budget", type=float)
    ap.add_argument("--workers", type=int)
    ap.add_argument("--replay")
    ap.add_argument("--digests")
    ap.add_argument("--no-evidence", action="store_true")
    ap.add_argument("--no-selfcheck", action="store_true")
    ap.add_argument("--dump-digests")
    a = ap.parse_args()

    import skfem
    got = os.path.realpath(os.path.dirname(skfem.__file__))
    if got != os.path.join(REPO, "skfem"):
        print("HARNESS-ERROR skfem imported from %s, expected %s/skfem" % (
            got, REPO))
        return 2
    from simfem.core import batch
    eng = engine_for(a.prop)
    if a.replay:
        return batch.run_replay(eng, a.prop, a.replay)
    if a.digests:
        ks = [int(x) for x in a.digests.split(",") if x]
        return batch.run_digests(eng, a.prop, a.tier, a.seed, ks)
    return batch.run_check(eng, a.prop, a.tier, a.seed, runs=a.runs,
                           budget_s=a.budget, workers=a.workers,
                           evidence=not a.no_evidence,
                           selfcheck=not a.no_selfcheck,
                           dump_digests=a.dump_digests)


if __name__ == "__main__":
    try:
        rc = main()
    except SystemExit:
        raise
    except BaseException as e:  # harness bug: never a pass, never a VIOLATION
        import traceback
        traceback.print_exc()
        print("HARNESS-ERROR %s: %s" % (type(e).__name__, e))
        rc = 2
    sys.stdout.flush()
    sys.exit(rc)
